#!/bin/sh
# Offline, idempotent: puts icontract beside the harness (never in /venv).
HERE="$(cd "$(dirname "$0")" && pwd)"
cd "$HERE" || exit 1
if [ ! -d .deps/icontract ]; then
  PIP_NO_INDEX=1 /venv/bin/pip install --quiet --no-index --find-links /opt/veriftools/wheels \
      --target .deps icontract || exit 1
fi
mkdir -p evidence replays
/venv/bin/python -c "import sys; sys.path.append('.deps'); import icontract, gscrib; print('setup ok', icontract.__version__, gscrib.__file__)"
