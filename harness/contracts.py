"""icontract postconditions attached from the harness to real gscrib functions.

Nothing in /repo is edited: the decorated function replaces the attribute on
the class, so every call made by the workloads goes through the contract.
Evaluation counters are exported so that zero evaluations => inconclusive.
"""

from __future__ import annotations

import collections
import math
import re
from fractions import Fraction

import numpy as np

from harness.common import add_deps_to_path

add_deps_to_path()
import icontract  # noqa: E402

EVALS = collections.Counter()
_INSTALLED = set()


class ContractBroken(Exception):
    """Raised by a contract; carries a JSON-able witness."""

    def __init__(self, *args):
        super().__init__(*args)


# ----------------------------------------------------------------------
# DefaultFormatter.number : plain decimal within half a unit (+ half ulp of
# the argument's own type) of the requested value
# ----------------------------------------------------------------------
NUM_RE = re.compile(r"-?\d+(\.\d+)?\Z")


def half_ulp(number):
    if isinstance(number, (int, np.integer, bool)):
        return Fraction(0)
    if isinstance(number, np.floating):
        v = abs(number)
        return Fraction(float(np.spacing(v))) / 2
    v = abs(float(number))
    return Fraction(math.ulp(v)) / 2


def exact(number):
    if isinstance(number, (int, np.integer)):
        return Fraction(int(number))
    if isinstance(number, np.floating):
        return Fraction(float(number)) if number.dtype.itemsize <= 8 else Fraction(str(number))
    if isinstance(number, Fraction):
        return number
    return Fraction(float(number))


def number_post(self, number, result):
    EVALS["formatter.number"] += 1
    if not isinstance(result, str) or not NUM_RE.match(result):
        return False
    tol = Fraction(1, 2 * 10 ** self._decimal_places) + half_ulp(number)
    return abs(Fraction(result) - exact(number)) <= tol


def install_number_contract():
    from gscrib.formatters import DefaultFormatter
    if "number" in _INSTALLED:
        return
    _INSTALLED.add("number")
    def err(self, number, result):
        return ContractBroken("formatter.number", {
            "number": repr(number), "type": type(number).__name__,
            "result": repr(result), "decimal_places": self._decimal_places})
    DefaultFormatter.number = icontract.ensure(number_post, error=err)(DefaultFormatter.number)


# ----------------------------------------------------------------------
# PathTracer._filter_segments : output is a subsequence of the input that
# keeps the first and the last sample
# ----------------------------------------------------------------------

def filter_post(self, points, result):
    EVALS["tracer.filter_segments"] += 1
    pts = np.asarray(points)
    res = np.asarray(result)
    if pts.size < 3:
        return np.array_equal(pts, res)
    if len(res) < 1 or len(res) > len(pts):
        return False
    if not np.array_equal(res[0], pts[0]) or not np.array_equal(res[-1], pts[-1]):
        return False
    j = 0
    for row in res:
        while j < len(pts) and not np.array_equal(pts[j], row):
            j += 1
        if j == len(pts):
            return False
        j += 1
    return True


def install_filter_contract():
    from gscrib.geometry.tracer import PathTracer
    if "filter" in _INSTALLED:
        return
    _INSTALLED.add("filter")
    def err(self, points, result):
        return ContractBroken("tracer.filter_segments", {
            "n_in": len(points), "n_out": len(result),
            "first_in": np.asarray(points)[0].tolist(), "last_in": np.asarray(points)[-1].tolist(),
            "first_out": np.asarray(result)[0].tolist() if len(result) else None,
            "last_out": np.asarray(result)[-1].tolist() if len(result) else None})
    PathTracer._filter_segments = icontract.ensure(filter_post, error=err)(PathTracer._filter_segments)


# ----------------------------------------------------------------------
# BoundManager.validate : a normal return implies the value is inside
# ----------------------------------------------------------------------

def validate_post(self, name, value):
    EVALS["bounds.validate"] += 1
    if name not in self._bounds:
        return True
    lo, hi = self._bounds[name]
    from gscrib.geometry import Point
    if isinstance(value, Point):
        for v, a, b in zip(value, lo, hi):
            if v is None or a is None or b is None:
                continue
            if not (a <= v <= b):
                return False
        return True
    return bool(lo <= value <= hi)


def install_validate_contract():
    from gscrib.geometry.bounds import BoundManager
    if "validate" in _INSTALLED:
        return
    _INSTALLED.add("validate")
    def err(self, name, value):
        return ContractBroken("bounds.validate", {
            "name": name, "value": repr(value), "bounds": repr(self._bounds.get(name))})
    BoundManager.validate = icontract.ensure(validate_post, error=err)(BoundManager.validate)


# ----------------------------------------------------------------------
# Transform: inverse is the inverse after every matrix change
# ----------------------------------------------------------------------

def transform_inv(self):
    EVALS["transform.invariant"] += 1
    m, i = self._matrix, self._inverse
    n = max(1.0, float(np.abs(m).max()) * float(np.abs(i).max()))
    return bool(np.allclose(m @ i, np.eye(4), atol=1e-9 * n))


def install_transform_invariant():
    from gscrib.geometry import transform as tmod
    if "transform" in _INSTALLED:
        return
    _INSTALLED.add("transform")
    orig = tmod.Transform._set_matrix

    def post(self, matrix):
        return transform_inv(self)
    def err(self, matrix):
        return ContractBroken("transform.inverse", {
            "matrix": np.asarray(self._matrix).tolist(), "inverse": np.asarray(self._inverse).tolist()})
    tmod.Transform._set_matrix = icontract.ensure(post, error=err)(orig)
