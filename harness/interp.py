"""Independent modal G-code interpreter (motion + modal state).

It consumes lines tokenised by harness.wire.Lexer and never looks at the
builder.  All arithmetic is exact (fractions.Fraction).
"""

from __future__ import annotations

from fractions import Fraction

AXES = ("X", "Y", "Z")
HALT_CODES = {"M0", "M1", "M2", "M30", "M60", "M109", "M190", "M191", "M400"}
PROBE_CODES = {"G38.2", "G38.3", "G38.4", "G38.5"}
TEMP_SET = {"M140": "bed", "M104": "hotend", "M141": "chamber"}
TEMP_WAIT = {"M190": "bed", "M109": "hotend", "M191": "chamber"}


class Machine:
    def __init__(self, dp=5, labels=None):
        self.dp = dp
        self.half = Fraction(1, 2 * 10 ** dp)
        self.labels = labels or {"X": "X", "Y": "Y", "Z": "Z"}  # wire label -> axis
        self.pos = {a: None for a in AXES}          # None = unknown
        self.budget = {a: Fraction(0) for a in AXES}
        self.relative = False
        # modal state
        self.tool_on = False
        self.tool_code = None        # 'M3' / 'M4' of the running tool
        self.power = None            # last S in a tool-power context
        self.coolant = None          # 'M7' / 'M8' / None
        self.tool_number = None
        self.feed = None
        self.extrusion = "M82"
        self.feed_mode = "G94"
        self.units = "G21"
        self.plane = "G17"
        self.temps = {"bed": None, "hotend": None, "chamber": None}
        self.params = {}             # last value of non-axis words on motion lines
        self.last_halt = None
        # traces
        self.moves = []              # (code, before, after, axis words, other words, budget) for G0/G1
        self.events = []             # interlock-relevant events, in order
        self.nlines = 0

    # ------------------------------------------------------------------
    def axis_words(self, line):
        out = {}
        for w in line.words:
            a = self.labels.get(w.label)
            if a is not None and w.label not in ("G", "M"):
                out[a] = w.value
        return out

    def other_words(self, line):
        return {w.label: w.value for w in line.words
                if w.label not in ("G", "M") and w.label not in self.labels}

    def snapshot_pos(self):
        return dict(self.pos)

    # ------------------------------------------------------------------
    def execute(self, line):
        self.nlines += 1
        codes = line.codes()
        if not line.words:
            return  # comment-only / blank
        axes = self.axis_words(line)
        others = self.other_words(line)

        if not codes:
            # bare words: F<speed>, S<power>
            if "F" in others:
                self.feed = others["F"]
            if "S" in others:
                self.power = others["S"]
            return

        code = codes[0]

        if code in ("G0", "G1"):
            before = self.snapshot_pos()
            for a, v in axes.items():
                if self.relative:
                    if self.pos[a] is not None:
                        self.pos[a] = self.pos[a] + v
                        self.budget[a] += self.half
                else:
                    self.pos[a] = v
                    self.budget[a] = self.half
            self._motion_params(others)
            self.moves.append((code, before, self.snapshot_pos(), dict(axes), dict(others), dict(self.budget)))
        elif code in PROBE_CODES:
            for a in axes:
                self.pos[a] = None
                self.budget[a] = Fraction(0)
            self._motion_params(others)
        elif code == "G92":
            for a, v in axes.items():
                self.pos[a] = v
                self.budget[a] = self.half
            self._remember(others)
        elif code == "G28":
            targets = list(axes) if axes else list(AXES)
            for a in targets:
                self.pos[a] = None
                self.budget[a] = Fraction(0)
            self._remember(others)
        elif code == "G90":
            self.relative = False
        elif code == "G91":
            self.relative = True
        elif code in ("G20", "G21"):
            self.units = code
        elif code in ("G17", "G18", "G19"):
            self.plane = code
        elif code in ("G93", "G94", "G95"):
            self.feed_mode = code
        elif code in ("M82", "M83"):
            self.extrusion = code

        # a line may carry several M codes (S1000 M3)
        for c in codes:
            if c in ("M3", "M4"):
                self.events.append(("tool_start", c, self.tool_on, self.coolant))
                self.tool_on = True
                self.tool_code = c
                if "S" in others:
                    self.power = others["S"]
            elif c == "M5":
                self.events.append(("tool_stop", c, self.tool_on, self.coolant))
                self.tool_on = False
                self.tool_code = None
            elif c in ("M7", "M8"):
                self.events.append(("coolant_start", c, self.tool_on, self.coolant))
                self.coolant = c
            elif c == "M9":
                self.events.append(("coolant_stop", c, self.tool_on, self.coolant))
                self.coolant = None
            elif c == "M6":
                self.events.append(("tool_change", c, self.tool_on, self.coolant))
                if "T" in others:
                    self.tool_number = others["T"]
            elif c in HALT_CODES:
                self.events.append(("halt", c, self.tool_on, self.coolant))
                self.last_halt = c
                if c in TEMP_WAIT:
                    for key in ("S", "R"):
                        if key in others:
                            self.temps[TEMP_WAIT[c]] = others[key]
                            break
            elif c in TEMP_SET:
                if "S" in others:
                    self.temps[TEMP_SET[c]] = others["S"]

    def _motion_params(self, others):
        if "F" in others:
            self.feed = others["F"]
        if "S" in others:
            self.power = others["S"]
        self._remember(others)

    def _remember(self, others):
        for k, v in others.items():
            self.params[k] = v

    def run(self, lines):
        for ln in lines:
            self.execute(ln)
