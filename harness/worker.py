"""Subprocess entry point: python -m harness.worker <module> <tier> <seed> <shard> <nshards> <outfile> <case|->"""
import sys
from harness.common import worker_main

if __name__ == "__main__":
    worker_main(sys.argv[1:])
