"""Random histories over the state-tracked builder API + the reference
interlock automaton (2 bits: tool running, coolant on).

draw() returns an Op with everything a reference model needs:
  name/args/kwargs  -- the call
  valid             -- do the arguments satisfy the documented validation rules
                       (ignoring user bounds)?
  needs_tool_off / needs_coolant_off -- documented interlock conditions
  apply(model)      -- effect on the reference automaton when accepted
"""

from __future__ import annotations

import math

HALT_MODES = ["pause", "optional-pause", "end-without-reset", "end-with-reset",
              "pallet-exchange", "wait-for-bed", "wait-for-hotend",
              "wait-for-chamber", "wait-for-motion"]
HALT_CODE = {"pause": "M0", "optional-pause": "M1", "end-without-reset": "M2",
             "end-with-reset": "M30", "pallet-exchange": "M60", "wait-for-bed": "M190",
             "wait-for-hotend": "M109", "wait-for-chamber": "M191", "wait-for-motion": "M400"}
SPIN = {"cw": "M3", "clockwise": "M3", "ccw": "M4", "counter": "M4"}
POWER = {"constant": "M3", "dynamic": "M4"}
COOLANT = {"mist": "M7", "flood": "M8"}
POWER_GRID = [0, 1, 50, 100, 255, 1000, 12000.5, 0.25]
FEED_GRID = [0, 1, 60, 300.5, 1500, 6000]
TEMP_GRID = [0, 25, 60.5, 110, 210, 250]


class Model:
    """Reference interlock automaton + the handful of facts other monitors need."""

    def __init__(self):
        self.tool = False
        self.coolant = False
        self.tool_api = None      # 'spin' / 'power'

    def state(self):
        return (int(self.tool), int(self.coolant))


class Op:
    __slots__ = ("name", "args", "kwargs", "valid", "needs_tool_off", "needs_coolant_off",
                 "effect", "guarded", "tag")

    def __init__(self, name, args=(), kwargs=None, valid=True, needs_tool_off=False,
                 needs_coolant_off=False, effect=None, tag=None):
        self.name, self.args, self.kwargs = name, tuple(args), dict(kwargs or {})
        self.valid = valid
        self.needs_tool_off = needs_tool_off
        self.needs_coolant_off = needs_coolant_off
        self.effect = effect
        self.guarded = needs_tool_off or needs_coolant_off
        self.tag = tag or name

    def apply(self, model):
        if self.effect:
            self.effect(model)

    def render(self):
        def r(v):
            if isinstance(v, float) and not math.isfinite(v):
                return repr(v)
            if isinstance(v, (list, tuple)):
                return [r(x) for x in v]
            return v
        return [self.name, [r(a) for a in self.args], {k: r(v) for k, v in self.kwargs.items()}]


def _num(rng, grid, invalid_p=0.08, nonfinite=False):
    r = rng.random()
    if r < invalid_p:
        bad = [-1, -0.5, -1000.0]
        if nonfinite:
            bad += [float("nan"), float("inf"), float("-inf")]
        v = rng.choice(bad)
        return v, False
    if r < 0.7:
        return rng.choice(grid), True
    return round(rng.uniform(0, max(grid)), rng.choice([0, 1, 3, 6])), True


def draw(rng, nonfinite=False, moves=True, weights=None):
    """Draw one operation."""
    kinds = ["tool_on", "tool_off", "power_on", "power_off", "coolant_on", "coolant_off",
             "tool_change", "halt", "pause", "stop", "wait", "emergency_halt",
             "set_feed_rate", "set_tool_power", "modes", "temperature", "misc"]
    if moves:
        kinds += ["move", "move", "probe"]
    kind = rng.choice(kinds)

    if kind == "tool_on":
        mode = rng.choice(list(SPIN) + ["off", "sideways"]) if rng.random() < 0.15 else rng.choice(list(SPIN))
        speed, ok = _num(rng, POWER_GRID, nonfinite=nonfinite)
        valid = ok and mode in SPIN

        def eff(m):
            m.tool, m.tool_api = True, "spin"
        return Op("tool_on", (mode, speed), valid=valid, needs_tool_off=True, effect=eff)
    if kind == "power_on":
        mode = rng.choice(list(POWER) + ["off", "pulsed"]) if rng.random() < 0.15 else rng.choice(list(POWER))
        power, ok = _num(rng, POWER_GRID, nonfinite=nonfinite)
        valid = ok and mode in POWER

        def eff(m):
            m.tool, m.tool_api = True, "power"
        return Op("power_on", (mode, power), valid=valid, needs_tool_off=True, effect=eff)
    if kind == "tool_off":
        return Op("tool_off", effect=lambda m: setattr(m, "tool", False))
    if kind == "power_off":
        return Op("power_off", effect=lambda m: setattr(m, "tool", False))
    if kind == "coolant_on":
        mode = rng.choice(list(COOLANT) + ["off", "air"]) if rng.random() < 0.15 else rng.choice(list(COOLANT))
        return Op("coolant_on", (mode,), valid=mode in COOLANT, needs_coolant_off=True,
                  effect=lambda m: setattr(m, "coolant", True))
    if kind == "coolant_off":
        return Op("coolant_off", effect=lambda m: setattr(m, "coolant", False))
    if kind == "tool_change":
        mode = rng.choice(["manual", "automatic", "off", "magic"]) if rng.random() < 0.15 else rng.choice(["manual", "automatic"])
        n = rng.choice([1, 2, 3, 7, 12, 100, 255, 0, -1]) if rng.random() < 0.3 else rng.randint(1, 99)
        valid = mode in ("manual", "automatic") and n >= 1
        return Op("tool_change", (mode, n), valid=valid, needs_tool_off=True, needs_coolant_off=True)
    if kind == "halt":
        mode = rng.choice(HALT_MODES + ["off", "forever"]) if rng.random() < 0.1 else rng.choice(HALT_MODES)
        kw = {}
        if mode.startswith("wait-for-") and mode != "wait-for-motion" and rng.random() < 0.7:
            kw[rng.choice(["S", "R", "s", "r"])] = rng.choice(TEMP_GRID)
        elif rng.random() < 0.1:
            kw["P"] = rng.choice([1, 2.5])
        valid = mode in HALT_MODES
        if kw and next(iter(kw)).upper() in ("S", "R") and rng.random() < 0.1:
            # a wrongly typed word (a number read from a file as text): refused by the type checks,
            # possibly after the call has begun -- the state it leaves behind is a reachable state
            k = next(iter(kw))
            kw[k] = str(kw[k])
            valid = False
        return Op("halt", (mode,), kw, valid=valid, needs_tool_off=True,
                  needs_coolant_off=True, tag="halt:" + mode)
    if kind == "pause":
        return Op("pause", (rng.random() < 0.5,), needs_tool_off=True, needs_coolant_off=True)
    if kind == "stop":
        return Op("stop", (rng.random() < 0.5,), needs_tool_off=True, needs_coolant_off=True)
    if kind == "wait":
        return Op("wait", needs_tool_off=True, needs_coolant_off=True)
    if kind == "emergency_halt":
        def eff(m):
            m.tool = False
            m.coolant = False
        return Op("emergency_halt", (rng.choice(["door open", "limit hit", "x"]), rng.random() < 0.5), effect=eff)
    if kind == "set_feed_rate":
        v, ok = _num(rng, FEED_GRID, nonfinite=nonfinite)
        return Op("set_feed_rate", (v,), valid=ok)
    if kind == "set_tool_power":
        v, ok = _num(rng, POWER_GRID, nonfinite=nonfinite)
        return Op("set_tool_power", (v,), valid=ok)
    if kind == "modes":
        which = rng.choice(["set_distance_mode", "set_extrusion_mode", "set_feed_mode",
                            "set_length_units", "set_plane", "set_temperature_units",
                            "set_time_units", "set_direction"])
        good = {"set_distance_mode": ["absolute", "relative"],
                "set_extrusion_mode": ["absolute", "relative"],
                "set_feed_mode": ["units/min", "units/rev", "1/time"],
                "set_length_units": ["mm", "in", "millimeters", "inches"],
                "set_plane": ["xy", "zx", "yz"],
                "set_temperature_units": ["celsius", "kelvin"],
                "set_time_units": ["s", "ms", "seconds", "milliseconds"],
                "set_direction": ["cw", "ccw", "clockwise", "counter"]}[which]
        if rng.random() < 0.08:
            return Op(which, ("bogus",), valid=False)
        return Op(which, (rng.choice(good),))
    if kind == "temperature":
        which = rng.choice(["set_bed_temperature", "set_hotend_temperature", "set_chamber_temperature"])
        return Op(which, (rng.choice(TEMP_GRID + [33.333, 199.5]),))
    if kind == "misc":
        which = rng.choice(["set_fan_speed", "sleep", "query", "comment", "set_resolution"])
        if which == "set_fan_speed":
            v = rng.choice([0, 128, 255, 64.5, 256, -1])
            return Op(which, (v,), valid=0 <= v <= 255)
        if which == "sleep":
            v = rng.choice([0, 0.5, 2, 100, -1])
            return Op(which, (v,), valid=v >= 0)
        if which == "query":
            return Op(which, (rng.choice(["position", "temperature"]),))
        if which == "set_resolution":
            v = rng.choice([0.1, 0.5, 2.0, 0, -1.0])
            return Op(which, (float(v),), valid=v > 0)
        return Op("comment", ("note",))
    if kind == "move":
        name = rng.choice(["move", "rapid", "move", "move_absolute", "rapid_absolute"])
        kw = {}
        for a in "xyz":
            if rng.random() < 0.5:
                kw[a] = round(rng.uniform(-100, 100), rng.choice([0, 2, 5]))
        valid = True
        if rng.random() < 0.5:
            kw["F"], ok = _num(rng, FEED_GRID, nonfinite=nonfinite)
            valid = valid and ok
        if rng.random() < 0.4:
            kw["S"], ok = _num(rng, POWER_GRID, nonfinite=nonfinite)
            valid = valid and ok
        if rng.random() < 0.2:
            kw["E"] = round(rng.uniform(0, 50), 4)
        if rng.random() < 0.1:
            kw[rng.choice(["A", "P", "Q"])] = round(rng.uniform(-5, 5), 3)
        return Op(name, (), kw, valid=valid, tag="move")
    # probe
    kw = {rng.choice("xyz"): round(rng.uniform(-50, 50), 3)}
    valid = True
    if rng.random() < 0.6:
        kw["F"], ok = _num(rng, FEED_GRID, nonfinite=nonfinite)
        valid = valid and ok
    mode = rng.choice(["towards", "away", "towards-no-error", "away-no-error"])
    return Op("probe", (mode,), kw, valid=valid)


def random_bounds(rng, g, p=0.6):
    """Configure user bounds that cut through the value grids above, so that calls are rejected
    by a bound in mid-history (and words next to the offending one are valid). Returns the dict."""
    b = {}
    if rng.random() < p:
        b["tool-power"] = rng.choice([(0, 100), (1, 1000), (0, 255), (0.5, 12000)])
    if rng.random() < p:
        b["feed-rate"] = rng.choice([(0, 1500), (1, 300.5), (60, 6000)])
    if rng.random() < p / 2:
        b["tool-number"] = (1, rng.choice([12, 50]))
    if rng.random() < p / 2:
        b["axes"] = ((-80, -80, -80), (80, 80, 80))
    for name in ("bed-temperature", "hotend-temperature", "chamber-temperature"):
        if rng.random() < p / 2:
            b[name] = (rng.choice([0, 25]), rng.choice([110, 210]))
    for name, (lo, hi) in b.items():
        g.set_bounds(name, lo, hi)
    return b
