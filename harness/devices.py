"""Device simulators for the threaded Printrun checks (C15, C16, C18).

* MarlinPTY  -- a Marlin-style firmware on the master side of a real PTY, so
  the real serial.Serial / Device / printcore threads run unmodified.
* GrblTCP    -- a Grbl-style controller behind a loopback TCP socket.

Both keep an event log stamped with time.monotonic_ns() (same process and
clock as the client side) and apply a *behaviour script* supplied by the
check: reply latency, unsolicited lines, reports, error replies, corruption
of received transmissions, connection loss.
"""

from __future__ import annotations

import os
import re
import select
import socket
import threading
import time
import tty

NUMBERED = re.compile(rb"^N(-?\d+) (.*)\*(\d+)$")


def xor(data: bytes) -> int:
    c = 0
    for b in data:
        c ^= b
    return c


class Behaviour:
    """Default behaviour: acknowledge everything immediately."""

    def latency(self, dev, index, line):          # seconds before the final reply
        return 0.0

    def corrupt(self, dev, tx_index, raw):          # return corrupted bytes or raw
        return raw

    def before_ack(self, dev, index, line):       # extra lines sent before the final reply
        return []

    def final_reply(self, dev, index, line):      # b"ok" or an error reply
        return b"ok"

    def drop_connection(self, dev, index, line):  # True -> close instead of replying
        return False


class BaseDevice:
    def __init__(self, behaviour=None):
        self.b = behaviour or Behaviour()
        self.events = []            # (t_ns, kind, payload)
        self.lock = threading.Lock()
        self.stop = False
        self.thread = None
        self.rx_lines = []          # every complete line received (after fault injection)
        self.rx_raw = []            # every complete line as transmitted (before fault injection)
        self.flushed = []           # lines dropped by the firmware's input flush (also in rx_raw)
        self.accepted = []          # commands executed, in order
        self.last_n = 0
        self.resend_requests = 0
        self.checksum_ok = 0
        self.checksum_bad = 0
        self.sequence_errors = 0
        self.numbered_tx = 0        # count of numbered transmissions seen (fault index space)
        self.statement_index = 0    # count of non-handshake statements
        self.pending_replies = 0
        self.idle_since = time.monotonic()
        self.closed_by_script = False

    # ------------------------------------------------------------------
    def log(self, kind, payload):
        with self.lock:
            self.events.append((time.monotonic_ns(), kind, payload))

    def send_line(self, data: bytes, kind="tx"):
        self.log(kind, data)
        self._write(data + b"\n")

    def is_handshake(self, cmd: bytes) -> bool:
        return cmd.startswith(b"G4 P0") or b"M110" in cmd

    # ------------------------------------------------------------------
    ack_blank = False

    def process(self, raw: bytes):
        """Handle one received line (without the newline)."""
        self.idle_since = None
        self.rx_raw.append(raw)
        self.log("rx-raw", raw)
        line = raw
        m0 = NUMBERED.match(raw)
        if m0:
            line = self.b.corrupt(self, self.numbered_tx, raw)
            self.numbered_tx += 1
        self.rx_lines.append(line)
        self.log("rx", line)
        if not line.strip() and not self.ack_blank:
            # Marlin-like firmware: an empty line is not acknowledged
            self.idle_since = time.monotonic()
            return
        m = NUMBERED.match(line)
        cmd = line
        if m0:
            # a numbered transmission: checksum + sequence as Marlin does
            star = line.rfind(b"*")
            ok_cs = False
            if m and star > 0:
                ok_cs = xor(line[:star]) == int(m.group(3))
            if not ok_cs:
                self.checksum_bad += 1
                self.request_resend(b"Error:checksum mismatch, Last Line: %d" % self.last_n)
                return
            self.checksum_ok += 1
            n, cmd = int(m.group(1)), m.group(2)
            if cmd.startswith(b"M110"):
                mm = re.search(rb"N(-?\d+)", cmd)
                self.last_n = int(mm.group(1)) if mm else n
            elif n != self.last_n + 1:
                self.sequence_errors += 1
                self.request_resend(b"Error:Line Number is not Last Line Number+1, Last Line: %d" % self.last_n)
                return
            else:
                self.last_n = n
        handshake = self.is_handshake(cmd)
        index = None
        if not handshake:
            index = self.statement_index
            self.statement_index += 1
            self.accepted.append(cmd)
            self.log("accept", (index, cmd))
        if not handshake and self.b.drop_connection(self, index, cmd):
            self.closed_by_script = True
            self.log("drop", index)
            self._close_peer()
            return
        delay = (getattr(self.b, "handshake_latency", lambda d: 0.0)(self) if handshake
                 else self.b.latency(self, index, cmd))
        extras = [] if handshake else self.b.before_ack(self, index, cmd)
        reply = b"ok" if handshake else self.b.final_reply(self, index, cmd)
        if delay:
            time.sleep(delay)
        for e in extras:
            self.send_line(e, "tx-extra")
            gap = getattr(self.b, "extra_gap", 0.0)
            if gap:
                time.sleep(gap)
        # stamp BEFORE sending: a client return earlier than this stamp cannot be a measurement artefact
        self.log("ack", (index, reply))
        self._write(reply + b"\n")
        # asynchronous error: reported while no statement is pending (e.g. Grbl raising an alarm
        # while executing a move it has already acknowledged)
        after = getattr(self.b, "async_error_after", None)
        if after and index in after:
            time.sleep(getattr(self.b, "async_gap", 0.05))
            self.log("async-error", (index, after[index]))
            self._write(after[index] + b"\n")
        self.idle_since = time.monotonic()

    def request_resend(self, error: bytes):
        self.resend_requests += 1
        delay = getattr(self.b, "resend_latency", lambda d: 0.0)(self)
        self._flush_input()
        self.send_line(error, "tx-error")
        fmt = getattr(self.b, "resend_format", b"Resend: %d")
        self.send_line(fmt % (self.last_n + 1), "tx-resend")
        if delay:
            time.sleep(delay)
        self.send_line(b"ok", "tx-ok-after-resend")
        self.idle_since = time.monotonic()

    def quiet_for(self):
        """Seconds since the device last finished handling a line (0 if busy)."""
        s = self.idle_since
        return 0.0 if s is None else time.monotonic() - s

    def _flush_input(self):
        pass

    def _close_peer(self):
        pass


class MarlinPTY(BaseDevice):
    def __init__(self, behaviour=None, greeting=None):
        super().__init__(behaviour)
        self.master, self.slave = os.openpty()
        tty.setraw(self.slave)
        tty.setraw(self.master)
        self.port = os.ttyname(self.slave)
        self.buf = b""
        self.greeting = greeting
        self.thread = threading.Thread(target=self._run, name="sim-firmware", daemon=True)

    def start(self):
        self.thread.start()
        return self

    def _write(self, data):
        try:
            os.write(self.master, data)
        except OSError:
            pass

    def _flush_input(self):
        # Marlin's flush_and_request_resend drops whatever is in the RX buffer.  Whole lines only:
        # the wire monitor must still see every transmission (rx_raw), so a line that is cut by the
        # flush is completed first (bounded wait) and then dropped as a whole.
        data = self.buf
        self.buf = b""
        deadline = time.monotonic() + 0.05
        while True:
            r, _, _ = select.select([self.master], [], [], 0)
            if r:
                try:
                    chunk = os.read(self.master, 4096)
                except OSError:
                    break
                if not chunk:
                    break
                data += chunk
                continue
            if data and not data.endswith(b"\n") and time.monotonic() < deadline:
                time.sleep(0.001)
                continue
            break
        if data and not data.endswith(b"\n"):
            cut = data.rfind(b"\n") + 1
            data, self.buf = data[:cut], data[cut:]
        for line in data.split(b"\n")[:-1]:
            line = line.rstrip(b"\r")
            self.rx_raw.append(line)
            self.flushed.append(line)
            self.log("rx-flushed", line)

    def _run(self):
        if self.greeting:
            self.send_line(self.greeting, "tx-greeting")
        while not self.stop:
            try:
                r, _, _ = select.select([self.master], [], [], 0.02)
            except (OSError, ValueError):
                return
            if not r:
                continue
            try:
                data = os.read(self.master, 4096)
            except OSError:
                return
            if not data:
                continue
            self.buf += data
            while b"\n" in self.buf and not self.stop:
                line, self.buf = self.buf.split(b"\n", 1)
                self.process(line.rstrip(b"\r"))

    def _close_peer(self):
        self.stop = True
        try:
            os.close(self.slave)
        except OSError:
            pass
        try:
            os.close(self.master)
        except OSError:
            pass

    def close(self):
        self.stop = True
        if self.thread.is_alive() and threading.current_thread() is not self.thread:
            self.thread.join(2)
        for fd in (self.master, self.slave):
            try:
                os.close(fd)
            except OSError:
                pass


class GrblTCP(BaseDevice):
    ack_blank = True        # Grbl answers 'ok' to every line, empty ones included

    def __init__(self, behaviour=None, greeting=b"Grbl 1.1h ['$' for help]"):
        super().__init__(behaviour)
        self.srv = socket.socket(socket.AF_INET, socket.SOCK_STREAM)
        self.srv.setsockopt(socket.SOL_SOCKET, socket.SO_REUSEADDR, 1)
        self.srv.bind(("127.0.0.1", 0))
        self.srv.listen(1)
        self.port = self.srv.getsockname()[1]
        self.conn = None
        self.greeting = greeting
        self.buf = b""
        self.thread = threading.Thread(target=self._run, name="sim-grbl", daemon=True)

    def start(self):
        self.thread.start()
        return self

    def _write(self, data):
        try:
            if self.conn is not None:
                self.conn.sendall(data)
        except OSError:
            pass

    def _run(self):
        self.srv.settimeout(10)
        try:
            self.conn, _ = self.srv.accept()
        except OSError:
            return
        self.conn.setsockopt(socket.IPPROTO_TCP, socket.TCP_NODELAY, 1)
        self.conn.settimeout(0.02)
        if self.greeting:
            self.send_line(self.greeting, "tx-greeting")
        while not self.stop:
            try:
                data = self.conn.recv(4096)
            except socket.timeout:
                continue
            except OSError:
                return
            if not data:
                self.log("peer-closed", None)
                return
            self.buf += data
            while b"\n" in self.buf and not self.stop:
                line, self.buf = self.buf.split(b"\n", 1)
                self.process(line.rstrip(b"\r"))

    def _close_peer(self):
        self.stop = True
        try:
            self.conn.shutdown(socket.SHUT_RDWR)
        except OSError:
            pass
        try:
            self.conn.close()
        except OSError:
            pass

    def close(self):
        self.stop = True
        if self.thread.is_alive() and threading.current_thread() is not self.thread:
            self.thread.join(2)
        for s in (self.conn, self.srv):
            try:
                if s is not None:
                    s.close()
            except OSError:
                pass
