"""Command line: ./vcheck <Cnn> [--tier quick|thorough] [--replay path]"""
import argparse
import json
import os
import sys

from harness.common import run_check


def main():
    ap = argparse.ArgumentParser()
    ap.add_argument("prop")
    ap.add_argument("--tier", default=os.environ.get("VERIF_TIER", "quick"),
                    choices=["quick", "thorough"])
    ap.add_argument("--replay")
    ap.add_argument("--seed", type=int, default=None)
    a = ap.parse_args()
    seed = a.seed if a.seed is not None else int(os.environ.get("VERIF_SEED", "0") or 0)
    modname = "checks." + a.prop.lower()
    replay = None
    if a.replay:
        with open(a.replay) as f:
            replay = json.load(f)
    sys.exit(run_check(modname, a.tier, seed, replay))


if __name__ == "__main__":
    main()
