"""Closed-form geometry oracles for the tracer shapes (C10, C11, C12).

Everything is recomputed from the *request* (start, target, centre, radius,
turns, pitch, direction); nothing is taken from gscrib.
"""

from __future__ import annotations

import math

TWO_PI = 2 * math.pi


def norm_angle(a):
    """Map to (-pi, pi]."""
    a = math.fmod(a, TWO_PI)
    if a > math.pi:
        a -= TWO_PI
    elif a <= -math.pi:
        a += TWO_PI
    return a


def directed_sweep(a0, a1, sign):
    """Angle in (0, 2pi] travelled from a0 to a1 going in direction sign
    (+1 counter-clockwise, -1 clockwise), returned signed."""
    d = math.fmod((a1 - a0) * sign, TWO_PI)
    if d <= 0:
        d += TWO_PI
    return sign * d


def vertices_from_moves(moves, start):
    """Absolute vertices (floats) reconstructed by the interpreter.
    `moves` are Machine.moves entries; unknown axes fall back to start."""
    out = []
    for mv in moves:
        after = mv[2]
        out.append(tuple(float(after[a]) if after[a] is not None else float("nan")
                         for a in ("X", "Y", "Z")))
    return out


def seglens(start, verts):
    out = []
    prev = start
    for v in verts:
        out.append(math.dist(prev, v))
        prev = v
    return out


def dist_point_segment(p, a, b):
    ax, ay, az = a
    bx, by, bz = b
    px, py, pz = p
    dx, dy, dz = bx - ax, by - ay, bz - az
    L2 = dx * dx + dy * dy + dz * dz
    if L2 == 0:
        return math.dist(p, a), 0.0
    t = ((px - ax) * dx + (py - ay) * dy + (pz - az) * dz) / L2
    t = max(0.0, min(1.0, t))
    q = (ax + t * dx, ay + t * dy, az + t * dz)
    return math.dist(p, q), t


class Verdict:
    def __init__(self):
        self.problems = []
        self.skipped = []
        self.facts = {}

    def bad(self, kind, **detail):
        self.problems.append((kind, detail))

    @property
    def ok(self):
        return not self.problems


def check_ends(v, start, target, verts, res, tol, first_factor=1.3):
    if not verts:
        v.bad("no-vertices")
        return
    first = math.dist(start, verts[0])
    if first > first_factor * res + tol:
        v.bad("jump-from-start", first_segment=first, resolution=res)
    end = math.dist(verts[-1], target)
    if end > tol:
        v.bad("does-not-end-on-target", last=verts[-1], target=target, error=end)


def check_helical(v, start, verts, center, r0, r1, total, z0, height, sign, tol, eps_r):
    """Vertices follow r = r0+(r1-r0)f, z = z0+height*f, angle advancing
    monotonically in direction `sign`, where f = swept/total; the sweep is
    unwrapped BACKWARDS from the last vertex (which must be the target and
    therefore sits at f=1)."""
    cx, cy = center
    pts = [start] + list(verts)
    rad = [math.hypot(p[0] - cx, p[1] - cy) for p in pts]
    ang = [math.atan2(p[1] - cy, p[0] - cx) for p in pts]
    n = len(pts)
    phi = [0.0] * n
    phi[-1] = total
    reliable = [r > eps_r for r in rad]
    for i in range(n - 1, 0, -1):
        if reliable[i] and reliable[i - 1]:
            # the advance from vertex i-1 to vertex i measured IN the direction of travel, in [0, 2*pi):
            # with a resolution coarser than the curve two consecutive vertices may legitimately be more
            # than half a turn apart, so the principal value of the difference says nothing about the
            # direction.  A step backwards by d shows up here as 2*pi - d and is caught below, where the
            # unwrapped sweep must come out at exactly the requested total (it would be a turn too long).
            fwd = ((ang[i] - ang[i - 1]) * sign) % (2 * math.pi)
            if fwd > 2 * math.pi - 1e-9:
                fwd = 0.0
            step = sign * fwd
            phi[i - 1] = phi[i] - step
        else:
            # angle undefined at (near) zero radius: use radius linearity itself
            if abs(r1 - r0) > eps_r:
                phi[i - 1] = total * (rad[i - 1] - r0) / (r1 - r0)
            else:
                phi[i - 1] = phi[i]
            v.skipped.append(i - 1)
    # total sweep: the start must sit at f=0
    if reliable[0]:
        if abs(phi[0]) > 1e-6 + tol / max(rad[0], eps_r):
            v.bad("wrong-total-sweep", expected=total, observed=total - phi[0])
            return
    v.facts["sweep"] = total - phi[0]
    for i in range(1, n):
        f = phi[i] / total if total else 1.0
        if f < -1e-6 or f > 1 + 1e-6:
            v.bad("sweep-out-of-range", index=i, f=f)
            return
        er = r0 + (r1 - r0) * f
        # a radius error translates to an angle error of tol/r: allow both
        if abs(rad[i] - er) > tol + abs(r1 - r0) * (tol / max(rad[i], eps_r)) / abs(total or 1):
            v.bad("radius-off-curve", index=i, radius=rad[i], expected=er, f=f)
            return
        ez = z0 + height * f
        if abs(pts[i][2] - ez) > tol + abs(height) * (tol / max(rad[i], eps_r)) / abs(total or 1):
            v.bad("z-not-linear-in-angle", index=i, z=pts[i][2], expected=ez, f=f)
            return


def arc_radius_centers(o, t, radius):
    dx, dy = t[0] - o[0], t[1] - o[1]
    d = math.hypot(dx, dy)
    h2 = radius * radius - (d / 2) ** 2
    h = math.sqrt(max(h2, 0.0))
    mx, my = (o[0] + t[0]) / 2, (o[1] + t[1]) / 2
    ux, uy = -dy / d, dx / d      # left normal of o->t
    return [(mx + h * ux, my + h * uy), (mx - h * ux, my - h * uy)]
