"""Runtime-monitoring harness for the gscrib properties (see DESIGN.md)."""
