"""Wire-level observers: a recording writer and an independent lexer.

Nothing in here imports gscrib's formatter or gcoder: the lexer is the
trusted, independent definition of "one well-formed block".
"""

from __future__ import annotations

import re
from fractions import Fraction

from gscrib.writers import BaseWriter

BRACKETS = {"(": ")", "[": "]", "{": "}", "<": ">", '"': '"', "'": "'", "/*": "*/"}
NUMBER_RE = re.compile(r"-?\d+(\.\d+)?\Z")
WORD_RE = re.compile(r"([A-Za-z]+)(\S*)\Z")


class RecordingWriter(BaseWriter):
    """Registered through the public add_writer API; keeps every payload."""

    def __init__(self):
        self.payloads = []
        self.connected = 0
        self.disconnected = 0
        self.flushed = 0

    def connect(self):
        self.connected += 1
        return self

    def disconnect(self, wait=True):
        self.disconnected += 1

    def write(self, statement):
        self.payloads.append(bytes(statement))

    def flush(self):
        self.flushed += 1

    def __deepcopy__(self, memo):
        c = RecordingWriter()
        c.payloads = list(self.payloads)
        return c

    # helpers --------------------------------------------------------
    def take(self, start):
        return self.payloads[start:]

    def nbytes(self):
        return sum(len(p) for p in self.payloads)


class LexError(Exception):
    pass


class Word:
    __slots__ = ("label", "text", "value")

    def __init__(self, label, text):
        self.label = label
        self.text = text
        self.value = Fraction(text)

    def __repr__(self):
        return f"{self.label}{self.text}"


class Line:
    __slots__ = ("raw", "words", "comment")

    def __init__(self, raw, words, comment):
        self.raw = raw
        self.words = words
        self.comment = comment

    def code(self):
        """Normalised command code of the first G/M word ('G1', 'M3', 'G38.2')."""
        for w in self.words:
            if w.label in ("G", "M"):
                return norm_code(w)
        return None

    def codes(self):
        return [norm_code(w) for w in self.words if w.label in ("G", "M")]

    def get(self, label):
        for w in self.words:
            if w.label == label:
                return w
        return None

    def params(self):
        """Words that are not G/M command codes."""
        return [w for w in self.words if w.label not in ("G", "M")]

    def executable(self):
        return [(w.label, w.value) for w in self.words]


def norm_code(word):
    v = word.value
    if v.denominator == 1:
        return f"{word.label}{v.numerator}"
    return f"{word.label}{float(v):g}"


class Lexer:
    """Block grammar:  word* comment?   word = LABEL NUMBER."""

    def __init__(self, line_ending="\n", comment_symbols=";"):
        self.line_ending = line_ending
        self.symbols = comment_symbols
        self.closing = BRACKETS.get(comment_symbols)

    # -- payload level -----------------------------------------------
    def split_payload(self, payload: bytes):
        """A payload must be line+ each ended exactly once by the terminator.
        Any other CR/LF (or other line separator a controller would honour)
        is a line break too.  Returns the list of line texts."""
        try:
            text = payload.decode("utf-8")
        except UnicodeDecodeError as e:
            raise LexError(f"payload is not UTF-8: {e}")
        le = self.line_ending
        if not text.endswith(le):
            raise LexError("payload does not end with the configured line ending")
        body = text[: -len(le)]
        parts = body.split(le)
        lines = []
        for part in parts:
            # a controller splits on any CR or LF
            lines.extend(re.split(r"\r\n|\n|\r", part))
        return lines

    # -- line level --------------------------------------------------
    def split_comment(self, text):
        """Return (code_part, comment or None, trailing) for the configured style."""
        i = text.find(self.symbols)
        if i < 0:
            return text, None, ""
        if self.closing is None:
            return text[:i], text[i:], ""
        j = text.find(self.closing, i + len(self.symbols))
        if j < 0:
            # unterminated bracket comment: controller dependent; treat the
            # rest as comment but flag it
            raise LexError("unterminated bracketed comment")
        end = j + len(self.closing)
        return text[:i], text[i:end], text[end:]

    def parse_line(self, text):
        code, comment, trailing = self.split_comment(text)
        if trailing.strip():
            raise LexError(f"text after the comment: {trailing!r}")
        words = self.parse_words(code)
        return Line(text, words, comment)

    def parse_words(self, code):
        words = []
        for tok in code.split():
            m = WORD_RE.match(tok)
            if not m:
                raise LexError(f"not an address word: {tok!r}")
            label, num = m.group(1), m.group(2)
            if not NUMBER_RE.match(num):
                raise LexError(f"not a plain signed decimal: {tok!r}")
            words.append(Word(label.upper(), num))
        return words

    def strip_executable(self, text):
        """Executable words of a line with ALL comments of the configured
        style removed (C09): what the controller would execute."""
        out = []
        rest = text
        while True:
            i = rest.find(self.symbols)
            if i < 0:
                out.append(rest)
                break
            out.append(rest[:i])
            if self.closing is None:
                break
            j = rest.find(self.closing, i + len(self.symbols))
            if j < 0:
                break
            rest = rest[j + len(self.closing):]
        return " ".join(out).split()

    def parse_payload(self, payload: bytes):
        return [self.parse_line(t) for t in self.split_payload(payload)]
