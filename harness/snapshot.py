"""Bit-exact snapshot of everything observable about a builder (C05, C06)."""

from __future__ import annotations

import math
import string
import struct

BOUND_PROPS = ("axes", "bed-temperature", "chamber-temperature", "hotend-temperature",
               "feed-rate", "tool-number", "tool-power")
STATE_PROPS = ("is_coolant_active", "is_tool_active", "tool_number", "tool_power", "feed_rate",
               "spin_mode", "power_mode", "coolant_mode", "distance_mode", "extrusion_mode",
               "feed_mode", "tool_swap_mode", "halt_mode", "length_units", "time_units",
               "temperature_units", "plane", "direction", "resolution",
               "target_hotend_temperature", "target_bed_temperature", "target_chamber_temperature")
PROBE_POINTS = ((0.0, 0.0, 0.0), (1.0, 2.0, 3.0), (-7.5, 11.25, 0.5))


def enc(v):
    """Hashable, NaN-aware, bit-exact encoding."""
    if isinstance(v, bool) or v is None:
        return v
    if isinstance(v, float):
        return "f:" + struct.pack(">d", v).hex()
    if isinstance(v, int):
        return v
    if hasattr(v, "value") and hasattr(v, "name"):
        return f"{type(v).__name__}.{v.name}"
    if isinstance(v, (tuple, list)):
        return tuple(enc(x) for x in v)
    try:
        import numpy as np
        if isinstance(v, np.floating):
            return "f:" + struct.pack(">d", float(v)).hex()
        if isinstance(v, np.integer):
            return int(v)
    except Exception:  # pragma: no cover
        pass
    return repr(v)


def show(v):
    if isinstance(v, str) and v.startswith("f:"):
        f = struct.unpack(">d", bytes.fromhex(v[2:]))[0]
        return f if math.isfinite(f) else repr(f)
    if isinstance(v, tuple):
        return [show(x) for x in v]
    return v


def take(g, writers=()):
    """Observable state of builder g as a flat dict of encoded values."""
    st = g.state
    snap = {}
    snap["builder.position"] = enc(tuple(g.position))
    snap["state.position"] = enc(tuple(st.position))
    snap["builder.distance_mode"] = enc(g.distance_mode)
    for p in STATE_PROPS:
        snap["state." + p] = enc(getattr(st, p))
    for letter in string.ascii_uppercase:
        snap[f"builder.param.{letter}"] = enc(g.get_parameter(letter))
        snap[f"state.param.{letter}"] = enc(st.get_parameter(letter))
    for name in BOUND_PROPS:
        lo, hi = st.get_bounds(name)
        snap["bounds." + name] = enc((tuple(lo) if isinstance(lo, tuple) else lo,
                                      tuple(hi) if isinstance(hi, tuple) else hi))
    for i, p in enumerate(PROBE_POINTS):
        snap[f"transform.image{i}"] = enc(tuple(g.transform.apply_transform(p)))
    snap["hooks"] = len(g._hooks)
    snap["writers"] = len(g._writers)
    for i, w in enumerate(writers):
        snap[f"writer{i}.payloads"] = len(w.payloads)
        snap[f"writer{i}.bytes"] = w.nbytes()
    return snap


def diff(a, b):
    return {k: [show(a[k]), show(b.get(k))] for k in a if a[k] != b.get(k)}
