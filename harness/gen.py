"""Seeded generators shared by the checks: numbers, motion requests, shapes."""

from __future__ import annotations

import math

from gscrib.geometry import Point

COORD_SPECIALS = [0.0, -0.0, 1e-6, -1e-6, 0.5, -0.5, 0.125, 2.5, 1234.567, -987.6543,
                  1e6, -1e6, 0.1, 0.2, 0.3, 1e-3, 3.0, 10.0, -10.0, 100.0]


def coord(rng, dp=5, big=True):
    """A finite coordinate from the edge classes of DESIGN C01."""
    r = rng.random()
    if r < 0.25:
        v = rng.choice(COORD_SPECIALS)
        if not big and abs(v) > 1e4:
            v = math.copysign(1000.0, v)
        return v
    if r < 0.45:
        return rng.randint(-6400, 6400) / 64.0            # dyadic
    if r < 0.65:
        return round(rng.uniform(-500, 500), 7)           # 7-digit decimals
    if r < 0.75:
        # ties at the rounding digit
        k = rng.randint(-10 ** 4, 10 ** 4)
        return (k + 0.5) / 10 ** dp
    if r < 0.80 and big:
        return rng.choice([-1, 1]) * rng.uniform(1e5, 1e6)
    if r < 0.85:
        return rng.uniform(-1e-4, 1e-4)
    return rng.uniform(-200, 200)


def axes_subset(rng, dp=5, big=True, allow_empty=True, names=("x", "y", "z")):
    while True:
        kw = {}
        for a in names:
            if rng.random() < 0.55:
                kw[a] = coord(rng, dp, big)
        if kw or (allow_empty and rng.random() < 0.15):
            return kw


def as_point_form(rng, kw):
    """Render an axes dict either as kwargs, a tuple/list or a Point."""
    form = rng.choice(["kw", "kw", "tuple", "point", "list"])
    if form == "kw":
        return (), dict(kw)
    vals = (kw.get("x"), kw.get("y"), kw.get("z"))
    if form == "tuple":
        return (vals,), {}
    if form == "list":
        return (list(vals),), {}
    return (Point(*vals),), {}


# ----------------------------------------------------------------------
# tracer shapes with valid geometry.  All take the *absolute* start `o`
# (builder.position resolved) and return (name, args, kwargs, meta) where
# target/center follow the API convention: target absolute or, in relative
# mode, an offset; centers always relative to the current position.
# ----------------------------------------------------------------------

def _tgt(o, t, relative, with_z):
    if relative:
        v = (t[0] - o[0], t[1] - o[1], t[2] - o[2])
    else:
        v = t
    return v if with_z else v[:2]


def _zero_one(rng, o, t, scale):
    """Set X or Y of a free target to exactly 0.0 when the start is close enough to that axis."""
    ks = [k for k in (0, 1) if abs(o[k]) <= 2 * scale]
    if not ks:
        return t
    k = rng.choice(ks)
    return tuple(0.0 if i == k else v for i, v in enumerate(t))


def shape_request(rng, o, relative, scale=20.0, kinds=None, grid=None, tiny_sweeps=False, param_offset=False):
    """Draw one valid tracer request starting at absolute point o=(x,y,z)."""
    kinds = kinds or ["arc", "arc_radius", "circle", "spline", "helix",
                      "thread", "spiral", "polyline", "parametric"]
    kind = rng.choice(kinds)
    q = (lambda v: round(v * grid) / grid) if grid else (lambda v: v)
    with_z = rng.random() < 0.5
    dz = q(rng.uniform(-scale / 2, scale / 2)) if with_z else 0.0
    if with_z and rng.random() < 0.15 and abs(o[2]) <= 2 * scale:
        dz = -o[2]          # target Z exactly 0 (a falsy coordinate that is nevertheless a request)
    zero_xy = rng.random() < 0.12   # same for X or Y where the target is free
    meta = {"kind": kind, "with_z": with_z}

    if kind in ("arc", "circle", "helix"):
        r0 = rng.uniform(0.2, 1.0) * scale
        a0 = rng.uniform(-math.pi, math.pi)
        cx, cy = o[0] - r0 * math.cos(a0), o[1] - r0 * math.sin(a0)
        center = (cx - o[0], cy - o[1])
        # the same centre given as a 3-D offset (a difference of two 3-D points): the curve lies in the
        # XY plane about (cx, cy), so the Z component of the centre changes nothing
        center_arg = center
        if rng.random() < 0.25:
            center_arg = center + (rng.choice([0.0, 2.0, -o[2], rng.uniform(-1, 1) * scale]),)
        if kind == "circle":
            meta.update(center=center, r=r0)
            return "trace.circle", (center_arg,), {}, meta
        sweep = rng.uniform(0.05, 2 * math.pi - 0.05)
        if tiny_sweeps and rng.random() < 0.12:
            # a very short angular travel (1e-7 .. 1e-3 rad): in the selected direction it is a very
            # short arc, against it an almost complete turn
            sweep = 10 ** rng.uniform(-7.3, -3.0)
            meta["tiny_sweep"] = True
        # actual start radius/angle as the code will see them
        r_start = math.hypot(o[0] - cx, o[1] - cy)
        a_start = math.atan2(o[1] - cy, o[0] - cx)
        sgn = rng.choice([-1, 1])
        if kind == "arc":
            r_end = r_start
        else:
            r_end = rng.uniform(0.2, 1.2) * scale
        a1 = a_start + sgn * sweep
        t = (cx + r_end * math.cos(a1), cy + r_end * math.sin(a1), o[2] + dz)
        target = _tgt(o, t, relative, with_z)
        if kind == "arc":
            meta.update(center=center, target_abs=t)
            return "trace.arc", (target, center_arg), {}, meta
        turns = rng.choice([1, 1, 2, 3, 5])
        meta.update(center=center, target_abs=t, turns=turns)
        return "trace.helix", (target, center_arg, turns), {}, meta

    if kind == "arc_radius":
        d = rng.uniform(0.2, 1.5) * scale
        a = rng.uniform(-math.pi, math.pi)
        t = (q(o[0] + d * math.cos(a)), q(o[1] + d * math.sin(a)), o[2] + dz)
        if zero_xy:
            t = _zero_one(rng, o, t, scale)
        dist = math.hypot(t[0] - o[0], t[1] - o[1])
        if dist < 1e-3:
            t = (o[0] + 1.0, o[1], t[2])
            dist = 1.0
        radius = rng.choice([-1, 1]) * dist / 2 * rng.uniform(1.05, 3.0)
        meta.update(target_abs=t, radius=radius)
        return "trace.arc_radius", (_tgt(o, t, relative, with_z), radius), {}, meta

    if kind in ("thread", "spiral"):
        d = rng.uniform(0.2, 1.5) * scale
        a = rng.uniform(-math.pi, math.pi)
        dz = q(rng.uniform(0.5, 1.0) * scale * rng.choice([-1, 1])) if kind == "thread" else dz
        with_z = True if kind == "thread" else with_z
        t = (q(o[0] + d * math.cos(a)), q(o[1] + d * math.sin(a)), o[2] + dz)
        while kind == "spiral" and abs(math.atan2(t[1] - o[1], t[0] - o[0])) < 0.05:
            a += 0.3        # keep the (grid-snapped) target off the +X ray: see below
            t = (q(o[0] + d * math.cos(a)), q(o[1] + d * math.sin(a)), o[2] + dz)
        if zero_xy:
            t2 = _zero_one(rng, o, t, scale)
            # a spiral starts on its centre, so its start angle is 0 by convention: a target on
            # the +X ray would ask for a sweep of exactly 0 (= 2*pi), where the turn count is
            # discontinuous -- outside the documented domain (sweep in (0.05, 2*pi - 0.05))
            a1 = math.atan2(t2[1] - o[1], t2[0] - o[0])
            degenerate = kind == "spiral" and abs(a1) < 0.05
            if math.hypot(t2[0] - o[0], t2[1] - o[1]) > 0.1 * scale and not degenerate:
                t = t2
        meta.update(target_abs=t, with_z=with_z)
        if kind == "thread":
            pitch = abs(dz) / rng.choice([0.55, 1.3, 2.4, 3.5, 6.5])   # never an integer ratio: floor() is discontinuous there
            # the documented defaults (pitch=1, turns=1) are part of the API: sometimes rely on them
            frac = abs(dz) - math.floor(abs(dz))
            if rng.random() < 0.15 and abs(dz) < 40 and 0.1 < frac < 0.9:
                meta.update(pitch=1.0, default_argument=True)
                return "trace.thread", (_tgt(o, t, relative, True),), {}, meta
            meta.update(pitch=pitch)
            return "trace.thread", (_tgt(o, t, relative, True), pitch), {}, meta
        turns = rng.choice([1, 2, 3])
        meta.update(turns=turns)
        if turns == 1 and rng.random() < 0.5:
            meta.update(default_argument=True)
            return "trace.spiral", (_tgt(o, t, relative, with_z),), {}, meta
        return "trace.spiral", (_tgt(o, t, relative, with_z), turns), {}, meta

    if kind in ("spline", "polyline"):
        n = rng.randint(2, 6) if kind == "spline" else rng.randint(1, 6)
        pts = []
        cur = o
        for _ in range(n):
            step = (q(rng.uniform(0.3, 1.0) * scale * rng.choice([-1, 1])),
                    q(rng.uniform(0.3, 1.0) * scale * rng.choice([-1, 1])),
                    q(rng.uniform(-0.3, 0.3) * scale) if with_z else 0.0)
            nxt = (cur[0] + step[0], cur[1] + step[1], cur[2] + step[2])
            if rng.random() < 0.08:
                k = rng.randrange(3 if with_z else 2)
                if abs(nxt[k]) <= 2 * scale:
                    nxt = tuple(0.0 if i == k else v for i, v in enumerate(nxt))
            pts.append(nxt)
            cur = nxt
        # closed loops / self-crossing paths: revisit the start or an earlier control point
        # (never as the immediate predecessor, which the API treats as a duplicate)
        r = rng.random()
        if len(pts) >= 3 and r < 0.2:
            pts[-1] = tuple(o)
        elif len(pts) >= 3 and r < 0.3:
            pts.append(pts[0])
        elif len(pts) >= 4 and r < 0.4:
            pts[-1] = pts[1]
        # some control points move along one axis only; in absolute mode the axes that keep their
        # value may then be given as None ("keep"), in relative mode they are zero offsets
        keep = []
        prev = o
        for i, p in enumerate(pts):
            k = ()
            if rng.random() < 0.2 and p is not pts[0] or rng.random() < 0.1:
                ax = rng.choice([0, 1])
                q2 = list(p)
                q2[ax] = prev[ax]
                if tuple(q2) != tuple(prev):
                    pts[i] = p = tuple(q2)
                    k = (ax,)
            keep.append(k)
            prev = p
        if relative:
            prev = o
            targets = []
            for p in pts:
                v = (p[0] - prev[0], p[1] - prev[1], p[2] - prev[2])
                targets.append(v if with_z else v[:2])
                prev = p
        else:
            targets = []
            for p, k in zip(pts, keep):
                v = tuple(None if (i in k and rng.random() < 0.7) else c for i, c in enumerate(p))
                targets.append(v if with_z else v[:2])
        meta.update(points_abs=pts)
        return f"trace.{kind}", (targets,), {}, meta

    # parametric: a Lissajous-like closed form starting at o
    import numpy as np
    ax, ay = rng.uniform(0.2, 1) * scale, rng.uniform(0.2, 1) * scale
    k = rng.choice([1, 2, 3])
    ox, oy, oz = o
    if param_offset and rng.random() < 0.6:
        # the function is given in absolute coordinates and need not start where the tool is
        ox += rng.uniform(-0.5, 0.5) * scale
        oy += rng.uniform(-0.5, 0.5) * scale
        if rng.random() < 0.5:
            oz += rng.uniform(-0.2, 0.2) * scale
        meta["starts_elsewhere"] = True

    def fn(thetas):
        x = ox + ax * np.sin(2 * np.pi * thetas * k) + 3.0 * thetas
        y = oy + ay * (1 - np.cos(2 * np.pi * thetas))
        z = oz + dz * thetas
        return np.column_stack((x, y, z))

    length = float(np.linalg.norm(np.diff(fn(np.linspace(0, 1, 400)), axis=0), axis=1).sum())
    end = fn(np.array([1.0]))[0]
    meta.update(target_abs=tuple(float(v) for v in end), length=length)
    return "trace.parametric", (fn, length), {}, meta
