"""Reference models: 4x4 matrix / stack / named-state model of the transformer."""

from __future__ import annotations

import math

import numpy as np


def tr(p):
    m = np.eye(4)
    m[:3, 3] = p
    return m


class TModel:
    """Independent model of gscrib.geometry.CoordinateTransformer semantics:
    T' = Tr(pivot) . A . Tr(-pivot) . T ; save/restore by value."""

    def __init__(self):
        self.M = np.eye(4)
        self.pivot = (0.0, 0.0, 0.0)
        self.stack = []
        self.names = {}

    # -- state -----------------------------------------------------------
    def snap(self):
        return (self.M.copy(), tuple(self.pivot))

    def load(self, snap):
        self.M = snap[0].copy()
        self.pivot = tuple(snap[1])

    def set_pivot(self, p):
        self.pivot = tuple(0.0 if v is None else float(v) for v in p)

    def save(self, name=None):
        if name is not None and name.strip():
            self.names[name.strip()] = self.snap()
        else:
            self.stack.append(self.snap())

    def restore(self, name=None):
        if name is not None and name.strip():
            self.load(self.names[name.strip()])      # KeyError if missing
        else:
            if not self.stack:
                raise IndexError("empty stack")
            self.load(self.stack.pop())

    def delete(self, name):
        del self.names[name]

    def context_snapshot(self):
        return (self.snap(), [(m.copy(), p) for m, p in self.stack])

    def context_revert(self, s):
        self.load(s[0])
        self.stack = [(m.copy(), p) for m, p in s[1]]

    # -- transforms -------------------------------------------------------
    def chain(self, A):
        self.M = tr(self.pivot) @ A @ tr(tuple(-v for v in self.pivot)) @ self.M

    def translate(self, x, y, z=0.0):
        self.chain(tr((x, y, z)))

    def rotate(self, angle_deg, axis="z"):
        a = math.radians(angle_deg)
        c, s = math.cos(a), math.sin(a)
        A = np.eye(4)
        if axis == "z":
            A[:3, :3] = [[c, -s, 0], [s, c, 0], [0, 0, 1]]
        elif axis == "x":
            A[:3, :3] = [[1, 0, 0], [0, c, -s], [0, s, c]]
        else:
            A[:3, :3] = [[c, 0, s], [0, 1, 0], [-s, 0, c]]
        self.chain(A)

    def scale(self, *f):
        if len(f) == 1:
            v = (f[0], f[0], f[0])
        else:
            v = tuple(f) + (1.0,) * (3 - len(f))
        self.chain(np.diag(v + (1.0,)))

    def reflect(self, normal):
        n = np.array(normal[:3], dtype=float)
        n = n / math.sqrt(float(n @ n))
        A = np.eye(4)
        A[:3, :3] = np.eye(3) - 2.0 * np.outer(n, n)
        self.chain(A)

    def mirror(self, plane="zx"):
        self.reflect({"xy": [0, 0, 1], "yz": [1, 0, 0], "zx": [0, 1, 0]}[plane])

    # -- queries ------------------------------------------------------------
    def apply(self, p):
        v = self.M @ np.array([p[0], p[1], p[2], 1.0])
        return (float(v[0]), float(v[1]), float(v[2]))

    def linear(self, d):
        v = self.M[:3, :3] @ np.array(d, dtype=float)
        return (float(v[0]), float(v[1]), float(v[2]))

    def norm(self):
        return float(np.abs(self.M).max())

    def cond(self):
        return float(np.linalg.cond(self.M[:3, :3]))


def draw_transform_op(rng, allow_pivot=True):
    """(name, args) for a random transformer operation (factors in [1/4, 4])."""
    kinds = ["translate", "rotate", "scale", "reflect", "mirror", "chain"] + (["set_pivot"] if allow_pivot else [])
    k = rng.choice(kinds)
    if k == "translate":
        args = (rng.uniform(-50, 50), rng.uniform(-50, 50)) + ((rng.uniform(-20, 20),) if rng.random() < 0.6 else ())
    elif k == "rotate":
        ang = rng.choice([90.0, -90.0, 180.0, 45.0, 30.0, 360.0]) if rng.random() < 0.4 else rng.uniform(-360, 360)
        args = (ang, rng.choice(["x", "y", "z"])) if rng.random() < 0.8 else (ang,)
    elif k == "scale":
        def f():
            v = rng.choice([0.25, 0.5, 2.0, 4.0, 1.0]) if rng.random() < 0.5 else rng.uniform(0.25, 4.0)
            return -v if rng.random() < 0.2 else v
        args = tuple(f() for _ in range(rng.choice([1, 1, 2, 3])))
    elif k == "reflect":
        while True:
            n = [rng.uniform(-1, 1) for _ in range(3)]
            if sum(abs(v) for v in n) > 0.3:
                break
        if rng.random() < 0.3:
            n = rng.choice([[1.0, 0.0, 0.0], [0.0, 1.0, 0.0], [0.0, 0.0, 1.0], [1.0, 1.0, 0.0]])
        args = (n,)
    elif k == "mirror":
        args = (rng.choice(["xy", "yz", "zx"]),) if rng.random() < 0.8 else ()
    elif k == "chain":
        # an arbitrary invertible affine matrix through the public chain_transform()
        a, b = math.radians(rng.uniform(-180, 180)), math.radians(rng.uniform(-180, 180))
        ra = np.array([[math.cos(a), -math.sin(a), 0], [math.sin(a), math.cos(a), 0], [0, 0, 1]])
        rb = np.array([[1, 0, 0], [0, math.cos(b), -math.sin(b)], [0, math.sin(b), math.cos(b)]])
        sc = np.diag([rng.uniform(0.5, 2), rng.uniform(0.5, 2), rng.uniform(0.5, 2)])
        shear = np.eye(3)
        shear[0, 1] = rng.uniform(-0.5, 0.5)
        A = np.eye(4)
        A[:3, :3] = ra @ sc @ shear @ rb
        A[:3, 3] = [rng.uniform(-20, 20), rng.uniform(-20, 20), rng.uniform(-5, 5)]
        return "chain_transform", (A,)
    else:
        args = ((rng.uniform(-30, 30), rng.uniform(-30, 30), rng.uniform(-10, 10)),)
    return k, args


def apply_to_model(model, name, args):
    if name == "set_pivot":
        model.set_pivot(args[0])
    elif name == "chain_transform":
        model.chain(np.array(args[0], dtype=float))
    else:
        getattr(model, name)(*args)
