"""Schedule perturbation with sys.monitoring (Python 3.12).

LINE events are enabled only on the code objects of selected functions (the
threaded Printrun code); the callback injects a yield (sleep(0)) or a short
sleep with a seeded probability and records which thread ran which function,
so that the evidence can report the context switches that were provoked.
"""

from __future__ import annotations

import collections
import random
import sys
import threading
import time

TOOL = 3            # a free tool id (0-5); 3 is unused by debuggers/coverage here
_mon = sys.monitoring


class Perturber:
    def __init__(self, functions, seed=0, p_yield=0.2, p_sleep=0.02, max_sleep=0.002,
                 focus=(), n_points=0, point_delay=0.002):
        """focus/n_points: besides the random yields, `n_points` randomly chosen source lines of the
        `focus` functions become *delay points*: whichever thread reaches one sleeps `point_delay`
        every time (a PCT-like strategy: "thread X is slow exactly here")."""
        self.codes = {}
        for f in functions:
            code = getattr(f, "__code__", None) or getattr(getattr(f, "__wrapped__", None), "__code__", None)
            if code is not None:
                self.codes[code] = f.__qualname__
        self.rng = random.Random(seed)
        self.lock = threading.Lock()
        self.p_yield, self.p_sleep, self.max_sleep = p_yield, p_sleep, max_sleep
        self.injected = 0
        self.line_events = 0
        self.last_thread = None
        self.switch_pairs = collections.Counter()
        self.active = False
        self.points = set()
        self.point_hits = 0
        self.point_delay = point_delay
        cand = []
        for f in focus:
            code = getattr(f, "__code__", None)
            if code is None:
                continue
            self.codes.setdefault(code, f.__qualname__)
            lines = sorted({ln for _, _, ln in code.co_lines() if ln is not None})
            cand.extend((code, ln) for ln in lines[1:])
        if cand and n_points:
            for _ in range(n_points):
                self.points.add(self.rng.choice(cand))

    def _on_line(self, code, line):
        name = self.codes.get(code)
        if name is None:
            return _mon.DISABLE
        tname = threading.current_thread().name
        with self.lock:
            self.line_events += 1
            r = self.rng.random()
            if self.last_thread is not None and self.last_thread[0] != tname:
                self.switch_pairs[(self.last_thread[1], name)] += 1
            self.last_thread = (tname, name)
        if (code, line) in self.points:
            self.point_hits += 1
            self.injected += 1
            time.sleep(self.point_delay)
            return None
        if r < self.p_sleep:
            self.injected += 1
            time.sleep(self.max_sleep * r / self.p_sleep)
        elif r < self.p_sleep + self.p_yield:
            self.injected += 1
            time.sleep(0)
        return None

    def __enter__(self):
        try:
            _mon.use_tool_id(TOOL, "gscrib-verif-sched")
        except ValueError:
            return self       # already in use: run unperturbed (counters stay 0)
        self.active = True
        _mon.register_callback(TOOL, _mon.events.LINE, self._on_line)
        for code in self.codes:
            _mon.set_local_events(TOOL, code, _mon.events.LINE)
        return self

    def __exit__(self, *exc):
        if self.active:
            for code in self.codes:
                _mon.set_local_events(TOOL, code, 0)
            _mon.register_callback(TOOL, _mon.events.LINE, None)
            _mon.free_tool_id(TOOL)
            self.active = False
        return False


def printrun_functions():
    from gscrib.printrun.printcore import printcore
    from gscrib.writers.printrun_writer import PrintrunWriter
    fs = [printcore._listen, printcore._sendnext, printcore._send, printcore._sender, printcore._print,
          printcore._readline, printcore.send, printcore.startprint, printcore._listen_until_online,
          PrintrunWriter.write, PrintrunWriter._send_statement, PrintrunWriter._on_device_message,
          PrintrunWriter._on_printrun_error, PrintrunWriter._abort_on_device_error,
          PrintrunWriter._wait_for_acknowledgment, PrintrunWriter._wait_for_pending_operations,
          PrintrunWriter._parse_message, PrintrunWriter._update_param, PrintrunWriter.get_parameter]
    return fs
