"""Shared runner: sharding, verdicts, evidence, known findings, replays.

Every check module (checks/cNN.py) exposes

    PROP, LEVEL, RULE, ASSUMPTIONS, TIERS, FLOORS
    run_shard(ctx, col)        # executed in a worker subprocess

and is driven by :func:`run_check`.  A shard iterates ``ctx.cases()`` and
draws all randomness from ``ctx.rng(case)`` so that a single case can be
replayed from (seed, tier, case).
"""

from __future__ import annotations

import collections
import concurrent.futures
import hashlib
import importlib
import json
import os
import random
import subprocess
import sys
import tempfile
import time
from pathlib import Path

VERIF = Path(__file__).resolve().parent.parent
PY = os.environ.get("GSCRIB_VERIF_PYTHON", "/venv/bin/python")
DEPS = VERIF / ".deps"
GUARD = "GSCRIB_VERIF"

MAX_STORED_VIOLATIONS = 25
MAX_SAMPLES = 6


# ----------------------------------------------------------------------
# worker side
# ----------------------------------------------------------------------

class Ctx:
    """Execution context of one shard (or one replayed case)."""

    def __init__(self, prop, tier, seed, shard, nshards, params, only_case=None):
        self.prop = prop
        self.tier = tier
        self.seed = seed
        self.shard = shard
        self.nshards = nshards
        self.params = params
        self.only_case = only_case
        self.deadline = None
        self.current_case = None      # the case being run (for crash isolation in worker_main)
        self.resume_after = None      # cases up to and including this one are skipped

    def cases(self, total=None):
        """Case indices owned by this shard (or the single replayed case)."""
        if self.only_case is not None:
            yield self.only_case
            return
        total = self.params["cases"] if total is None else total
        for i in range(self.shard, total, self.nshards):
            if self.resume_after is not None and i <= self.resume_after:
                continue
            if self.deadline is not None and time.monotonic() > self.deadline:
                return
            self.current_case = i
            yield i
        self.current_case = None

    def rng(self, case, salt=""):
        text = f"{self.prop}:{self.seed}:{self.tier}:{case}:{salt}"
        digest = hashlib.sha256(text.encode()).digest()
        return random.Random(int.from_bytes(digest[:8], "big"))

    def case_ref(self, case):
        return {"seed": self.seed, "tier": self.tier, "case": case}

    def watchdog(self, seconds):
        """Per-case wall-clock watchdog (main thread, SIGALRM).  Its firing
        makes the case inconclusive, never a violation."""
        return _Watchdog(seconds)


class CaseTimeout(BaseException):
    pass


class _Watchdog:
    def __init__(self, seconds):
        self.seconds = seconds

    def _fire(self, *_):
        raise CaseTimeout()

    def __enter__(self):
        import signal
        self._old = signal.signal(signal.SIGALRM, self._fire)
        signal.setitimer(signal.ITIMER_REAL, self.seconds)
        return self

    def __exit__(self, exc_type, exc, tb):
        import signal
        signal.setitimer(signal.ITIMER_REAL, 0)
        signal.signal(signal.SIGALRM, self._old)
        if exc_type is not None and issubclass(exc_type, MemoryError):
            # a case that blows up (e.g. a degenerate path with 10^10 segments) is inconclusive,
            # exactly like one that runs into the watchdog
            raise CaseTimeout() from exc
        return False


class Collector:
    """Accumulates what the monitors of one shard observed."""

    def __init__(self):
        self.evaluations = 0
        self.keys = set()
        self.counts = collections.Counter()
        self.violations = []
        self.n_violations = 0
        self.samples = []
        self.inconclusive = []
        self.notes = collections.Counter()
        self.distinct_extra = 0

    def distinct(self, n=1):
        """Cases that are distinct by construction (enumerated spaces whose
        shards are disjoint): counted, not stored."""
        self.distinct_extra += n

    def key(self, *parts):
        self.keys.add("|".join(str(p) for p in parts))

    def count(self, name, n=1):
        self.counts[name] += n

    def note(self, text):
        """Observation outside the property (never a violation)."""
        self.notes[text] += 1

    def sample(self, obj, limit=2):
        if len(self.samples) < limit:
            self.samples.append(obj)

    def violation(self, kind, case, detail, mechanism=None):
        """Record a violation witness.

        kind      -- which refutation condition fired
        mechanism -- classifier output used only to match known findings
        case      -- ctx.case_ref(i) so that the case can be replayed
        """
        self.n_violations += 1
        if len(self.violations) < MAX_STORED_VIOLATIONS:
            self.violations.append({
                "kind": kind,
                "mechanism": mechanism,
                "case": case,
                "detail": detail,
            })
        else:
            # keep one witness per distinct (kind, mechanism) even if full
            seen = {(v["kind"], v["mechanism"]) for v in self.violations}
            if (kind, mechanism) not in seen and len(self.violations) < 4 * MAX_STORED_VIOLATIONS:
                self.violations.append({
                    "kind": kind, "mechanism": mechanism,
                    "case": case, "detail": detail,
                })

    def crash(self, case, exc):
        """An exception nobody expected ended a case: the case is inconclusive (never a violation
        by itself), the other cases of the shard still run."""
        import traceback
        self.counts["crashed_cases"] += 1
        if len(self.inconclusive) < 20:
            frames = traceback.extract_tb(exc.__traceback__)
            where = [f"{os.path.relpath(f.filename, '/')}:{f.lineno}" for f in frames[-3:]]
            self.inconclusive.append(f"case {case.get('case')}: crash {type(exc).__name__}: {exc} at {' <- '.join(reversed(where))}")

    def inconclusive_case(self, text):
        if len(self.inconclusive) < 50:
            self.inconclusive.append(text)
        self.counts["inconclusive_cases"] += 1

    def to_json(self):
        return {
            "evaluations": self.evaluations,
            "keys": sorted(self.keys),
            "counts": dict(self.counts),
            "violations": self.violations,
            "n_violations": self.n_violations,
            "samples": self.samples,
            "inconclusive": self.inconclusive,
            "notes": dict(self.notes),
            "distinct_extra": self.distinct_extra,
        }


def add_deps_to_path():
    """Third-party helper libraries (icontract) live in .deps; they go to
    the END of sys.path so the repository's own environment always wins."""
    p = str(DEPS)
    if p not in sys.path:
        sys.path.append(p)


def worker_main(argv):
    modname, tier, seed, shard, nshards, outfile, only_case = argv
    seed, shard, nshards = int(seed), int(shard), int(nshards)
    only_case = None if only_case == "-" else int(only_case)
    add_deps_to_path()
    os.environ[GUARD] = "1"
    module = importlib.import_module(modname)
    params = dict(module.TIERS[tier])
    ctx = Ctx(module.PROP, tier, seed, shard, nshards, params, only_case)
    budget = params.get("shard_budget_s")
    if budget:
        ctx.deadline = time.monotonic() + budget
    col = Collector()
    t0 = time.monotonic()
    while True:
        try:
            module.run_shard(ctx, col)
            break
        except Exception as e:
            # crash isolation: one case that dies with an unexpected exception must not hide the
            # other cases of the shard; the shard is re-entered behind the crashed case
            if only_case is not None or ctx.current_case is None:
                raise
            col.crash(ctx.case_ref(ctx.current_case), e)
            ctx.resume_after = ctx.current_case
            ctx.current_case = None
    out = col.to_json()
    out["wall_s"] = time.monotonic() - t0
    with open(outfile, "w") as f:
        json.dump(out, f, default=_json_default)
    # the threaded code under test creates non-daemon threads; one that is still blocked (e.g. in a
    # write to a device that went away) must not keep the finished shard from exiting
    sys.stdout.flush()
    sys.stderr.flush()
    os._exit(0)


def _json_default(o):
    try:
        import numpy as np
        if isinstance(o, np.generic):
            return o.item()
        if isinstance(o, np.ndarray):
            return o.tolist()
    except Exception:  # pragma: no cover
        pass
    if isinstance(o, (set, frozenset, tuple)):
        return list(o)
    if isinstance(o, bytes):
        return o.decode("utf-8", "backslashreplace")
    return repr(o)


# ----------------------------------------------------------------------
# parent side
# ----------------------------------------------------------------------

def ensure_deps():
    if (DEPS / "icontract").is_dir():
        return
    subprocess.run(["/bin/sh", str(VERIF / "setup.sh")], cwd=str(VERIF),
                   check=True, stdout=subprocess.DEVNULL)


def _spawn(modname, tier, seed, shard, nshards, timeout, only_case=None, extra_env=None):
    fd, outfile = tempfile.mkstemp(prefix="vshard_", suffix=".json")
    os.close(fd)
    env = dict(os.environ)
    env["PYTHONHASHSEED"] = "0"
    env["PYTHONPATH"] = str(VERIF)
    alt = os.environ.get("GSCRIB_VERIF_REPO")
    if alt:
        # development aid (seeded-defect trials): import gscrib from another checkout
        env["PYTHONPATH"] = alt + os.pathsep + str(VERIF)
    env["PYTHONDONTWRITEBYTECODE"] = "1"
    env[GUARD] = "1"
    env.setdefault("OMP_NUM_THREADS", "1")
    env.setdefault("OPENBLAS_NUM_THREADS", "1")
    env.setdefault("MKL_NUM_THREADS", "1")
    if extra_env:
        env.update(extra_env)
    cmd = [PY, "-W", "ignore", "-m", "harness.worker", modname, tier, str(seed),
           str(shard), str(nshards), outfile,
           "-" if only_case is None else str(only_case)]
    status = "ok"
    err = ""
    try:
        p = subprocess.run(cmd, cwd=str(VERIF), env=env, timeout=timeout,
                           stdout=subprocess.PIPE, stderr=subprocess.PIPE)
        if p.returncode != 0:
            status = "crash"
            err = p.stderr.decode("utf-8", "replace")[-4000:]
    except subprocess.TimeoutExpired:
        status = "timeout"
    data = None
    if status == "ok":
        try:
            with open(outfile) as f:
                data = json.load(f)
        except Exception as e:  # pragma: no cover
            status = "crash"
            err = f"unreadable shard output: {e}"
    try:
        os.unlink(outfile)
    except OSError:
        pass
    return status, data, err


def load_findings():
    path = VERIF / "known_findings.json"
    if not path.exists():
        return {"findings": [], "fixed": []}
    with open(path) as f:
        return json.load(f)


def run_check(modname, tier, seed, replay=None):
    ensure_deps()
    sys.path.insert(0, str(VERIF))
    module = importlib.import_module(modname)
    prop = module.PROP
    params = dict(module.TIERS[tier])
    nshards = params.get("shards", 16)
    timeout = params.get("timeout", 600)
    extra_env = getattr(module, "ENV", None)
    t0 = time.monotonic()

    merged = {
        "evaluations": 0, "keys": set(), "counts": collections.Counter(),
        "violations": [], "n_violations": 0, "samples": [],
        "inconclusive": [], "notes": collections.Counter(), "distinct_extra": 0,
    }
    problems = []

    if replay is not None:
        jobs = [(0, replay["case"])]
        seed = replay["seed"]
        tier = replay["tier"]
        nshards_eff = 1
    else:
        jobs = [(s, None) for s in range(nshards)]
        nshards_eff = nshards

    def one(job):
        shard, only_case = job
        status, data, err = _spawn(modname, tier, seed, shard, nshards_eff,
                                   timeout, only_case, extra_env)
        if status != "ok":
            # one retry: a watchdog firing twice is inconclusive, never a violation
            status2, data2, err2 = _spawn(modname, tier, seed, shard, nshards_eff,
                                          timeout, only_case, extra_env)
            if status2 == "ok":
                return shard, "ok-after-retry:" + status, data2, err
            return shard, status2, None, err2 or err
        return shard, status, data, err

    workers = min(params.get("parallel", 16), len(jobs))
    with concurrent.futures.ThreadPoolExecutor(max_workers=workers) as ex:
        results = list(ex.map(one, jobs))

    shard_walls = []
    for shard, status, data, err in results:
        if data is None:
            problems.append(f"shard {shard}: {status} {err.strip().splitlines()[-1] if err.strip() else ''}")
            if err:
                sys.stderr.write(f"[{prop}] shard {shard} {status}:\n{err}\n")
            continue
        if status != "ok":
            merged["notes"][f"shard {shard} {status}"] += 1
        merged["evaluations"] += data["evaluations"]
        merged["keys"].update(data["keys"])
        merged["counts"].update(data["counts"])
        merged["violations"].extend(data["violations"])
        merged["n_violations"] += data["n_violations"]
        merged["inconclusive"].extend(data["inconclusive"])
        merged["notes"].update(data["notes"])
        merged["distinct_extra"] += data.get("distinct_extra", 0)
        for s in data["samples"]:
            if len(merged["samples"]) < MAX_SAMPLES:
                merged["samples"].append(s)
        shard_walls.append(data.get("wall_s", 0))

    # ------------------------------------------------------------------
    # verdict
    # ------------------------------------------------------------------
    findings = load_findings()
    known = {}
    for f in findings.get("findings", []):
        if f.get("property") == prop:
            for mech in f["mechanisms"]:
                known[mech] = f
    known_hits = collections.OrderedDict()
    unexplained = []
    for v in merged["violations"]:
        mech = v.get("mechanism")
        # a witness may combine several mechanisms ("a & b"): it is explained
        # only if every one of them is a listed finding
        atoms = mech.split(" & ") if mech else []
        if atoms and all(a in known for a in atoms):
            for a in atoms:
                known_hits.setdefault(known[a]["id"], []).append(v)
        else:
            unexplained.append(v)
    by_id = {f["id"]: f for f in findings.get("findings", [])}

    floors = getattr(module, "FLOORS", {}).get(tier, {}) if replay is None else {}
    floor_fail = []
    for name, minimum in floors.get("counts", {}).items():
        if merged["counts"].get(name, 0) < minimum:
            floor_fail.append(f"{name}={merged['counts'].get(name, 0)} < {minimum}")
    n_distinct = len(merged["keys"]) + merged["distinct_extra"]
    if n_distinct < floors.get("keys", 0):
        floor_fail.append(f"distinct={n_distinct} < {floors['keys']}")
    if merged["evaluations"] < floors.get("evaluations", 0):
        floor_fail.append(f"evaluations={merged['evaluations']} < {floors['evaluations']}")

    n_crashed = merged["counts"].get("crashed_cases", 0)
    if n_crashed:
        first = next((t for t in merged["inconclusive"] if "crash" in t), "")
        problems.append(f"{n_crashed} case(s) ended with an unexpected exception, e.g. {first}")
    frac = floors.get("max_inconclusive_frac", 0.05)
    n_inc = merged["counts"].get("inconclusive_cases", 0)
    if replay is None and n_inc > frac * max(1, merged["evaluations"]):
        floor_fail.append(f"inconclusive_cases={n_inc} > {frac:.0%} of evaluations")

    wall = time.monotonic() - t0
    evidence = {
        "property_id": prop,
        "tier": tier,
        "seed": int(seed),
        "level": module.LEVEL,
        "coverage": {
            "evaluations": int(merged["evaluations"]),
            "distinct_nontrivial": n_distinct,
            "rule": module.RULE,
            "samples": merged["samples"],
            "monitor_counts": dict(sorted(merged["counts"].items())),
            "distinct_keys_sample": sorted(merged["keys"])[:40],
            "inconclusive_cases": merged["inconclusive"][:20],
            "observations_outside_property": dict(merged["notes"]),
            "known_findings_seen": {m: len(vs) for m, vs in known_hits.items()},
            "shards": nshards_eff,
            "shard_problems": problems,
            "floor_failures": floor_fail,
        },
        "assumptions": list(module.ASSUMPTIONS),
        "wall_s": round(wall, 3),
        "violations": int(len(unexplained)),
    }
    if getattr(module, "ENUMERATED", {}).get(tier):
        # a completely enumerated sub-space next to randomised cases (schedules are not enumerated)
        evidence["coverage"]["enumerated_subspace"] = module.ENUMERATED[tier]
    if getattr(module, "EXHAUSTIVE", {}).get(tier):
        evidence["coverage"]["exhaustive"] = True
        evidence["coverage"]["exhaustive_scope"] = module.EXHAUSTIVE[tier]
    if replay is None and not os.environ.get("GSCRIB_VERIF_REPO"):
        evdir = VERIF / "evidence"
        evdir.mkdir(exist_ok=True)
        with open(evdir / f"{prop}.json", "w") as f:
            json.dump(evidence, f, indent=1, default=_json_default, sort_keys=True)
            f.write("\n")

    print(f"[{prop}] tier={tier} seed={seed} evaluations={merged['evaluations']} "
          f"distinct={n_distinct} wall={wall:.1f}s")
    interesting = {k: v for k, v in sorted(merged["counts"].items())}
    print(f"[{prop}] monitor counts: {json.dumps(interesting)}")
    if merged["notes"]:
        print(f"[{prop}] observations outside the property: {json.dumps(dict(merged['notes']))}")

    for fid, vs in known_hits.items():
        f = by_id[fid]
        print(f"KNOWN-FINDING: property={prop} {f['id']}: {f['what']} (seen {len(vs)}x this run)")

    if unexplained:
        rdir = VERIF / "replays"
        rdir.mkdir(exist_ok=True)
        seen_kinds = set()
        for v in unexplained:
            k = (v["kind"], v.get("mechanism"))
            if k in seen_kinds:
                continue
            seen_kinds.add(k)
            if len(seen_kinds) > 10:
                break
            name = f"{prop}_{tier}_s{seed}_c{v['case']['case']}_{_slug(v['kind'])}.json"
            path = rdir / name
            with open(path, "w") as f:
                json.dump({"property": prop, "module": modname, **v["case"],
                           "kind": v["kind"], "mechanism": v.get("mechanism"),
                           "detail": v["detail"]}, f, indent=1, default=_json_default)
            print(f"VIOLATION property={prop} replay={path}")
            print(f"  kind={v['kind']} detail={json.dumps(v['detail'], default=_json_default)[:1500]}")
        print(f"[{prop}] {merged['n_violations']} violating observations in total, "
              f"{len(unexplained)} stored and unexplained")
        return 1

    if problems or floor_fail:
        print(f"INCONCLUSIVE property={prop} problems={problems} floors={floor_fail}")
        return 2
    print(f"[{prop}] held on everything observed"
          + (" (known findings listed above)" if known_hits else ""))
    return 0


def _slug(text):
    return "".join(c if c.isalnum() else "_" for c in text)[:40]
