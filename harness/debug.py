"""Inline (single process) runner for development:
   python -m harness.debug c10 0 200 [tier] [seed]"""
import json, sys, time
from harness.common import Ctx, Collector, add_deps_to_path, _json_default
import importlib

def main():
    add_deps_to_path()
    mod = importlib.import_module("checks." + sys.argv[1])
    lo, hi = int(sys.argv[2]), int(sys.argv[3])
    tier = sys.argv[4] if len(sys.argv) > 4 else "quick"
    seed = int(sys.argv[5]) if len(sys.argv) > 5 else 0
    params = dict(mod.TIERS[tier])
    col = Collector()
    t0 = time.time()
    slow = []
    for case in range(lo, hi):
        ctx = Ctx(mod.PROP, tier, seed, 0, 1, params, only_case=case)
        t = time.time()
        mod.run_shard(ctx, col)
        if time.time() - t > 2:
            slow.append((case, round(time.time() - t, 1)))
    out = col.to_json()
    print("wall", round(time.time() - t0, 2), "evals", out["evaluations"], "keys", len(out["keys"]) + out["distinct_extra"])
    print("counts", json.dumps(out["counts"], sort_keys=True))
    print("notes", out["notes"], "inconclusive", out["inconclusive"][:5], "slow", slow[:10])
    print("n_violations", out["n_violations"])
    seen = set()
    for v in out["violations"]:
        k = (v["kind"], v["mechanism"])
        if k in seen: continue
        seen.add(k)
        print(json.dumps(v, default=_json_default)[:1800])

main()
