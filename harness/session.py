"""A real GCodeBuilder wired to the wire observers.

Session owns: the builder, a RecordingWriter registered through add_writer,
the independent lexer and the modal interpreter.  ``call`` invokes a builder
method, feeds whatever reached the writer to lexer+interpreter and returns
(outcome, exception, new_lines).
"""

from __future__ import annotations

import math
from fractions import Fraction

from gscrib import GCodeBuilder
from gscrib.excepts import ToolStateError, CoolantStateError

from .interp import Machine
from .wire import Lexer, LexError, RecordingWriter

REJECTIONS = (ValueError, ToolStateError, CoolantStateError)


def escape_le(le):
    return le.encode("unicode-escape").decode("ascii")


class Session:
    def __init__(self, dp=5, comment=";", le="\n", labels=None, interpret=True,
                 builder_cls=GCodeBuilder, **cfg):
        kw = dict(decimal_places=dp, comment_symbols=comment,
                  line_endings=escape_le(le))
        self.labels = {"X": "X", "Y": "Y", "Z": "Z"}
        if labels:
            for axis, lab in labels.items():
                kw[f"{axis.lower()}_axis"] = lab
                self.labels[axis.upper()] = lab.strip().upper()
        kw.update(cfg)
        self.g = builder_cls(**kw)
        self.rec = RecordingWriter()
        self.g.add_writer(self.rec)
        self.dp = dp
        self.lexer = Lexer(le, comment)
        wire_labels = {lab: axis for axis, lab in self.labels.items()}
        self.m = Machine(dp, wire_labels) if interpret else None
        self.consumed = 0
        self.lines = []          # all parsed lines so far
        self.lex_errors = []
        self.ncalls = 0
        self.undocumented = []      # exceptions outside the documented rejections (outcome "crashed")

    # ------------------------------------------------------------------
    def drain(self):
        """Feed new payloads to lexer and interpreter; return new Line objects."""
        new = []
        payloads = self.rec.payloads[self.consumed:]
        self.consumed = len(self.rec.payloads)
        for p in payloads:
            try:
                parsed = self.lexer.parse_payload(p)
            except LexError as e:
                self.lex_errors.append((p, str(e)))
                continue
            for ln in parsed:
                new.append(ln)
                if self.m is not None:
                    self.m.execute(ln)
        self.lines.extend(new)
        return new

    def call(self, name, *args, **kwargs):
        """Call g.<name>; trace.<shape> is addressed as 'trace.arc'."""
        self.ncalls += 1
        target = self.g
        for part in name.split(".")[:-1]:
            target = getattr(target, part)
        fn = getattr(target, name.split(".")[-1])
        before = len(self.rec.payloads)
        try:
            fn(*args, **kwargs)
        except REJECTIONS as e:
            new = self.drain()
            return "rejected", e, new, len(self.rec.payloads) - before
        except Exception as e:
            # an exception outside the documented rejections: the call still did not succeed, and the
            # monitors go on judging what it emitted and what it left behind (contract violations of
            # the harness's own monitors pass through)
            if type(e).__name__ == "ContractBroken":
                raise
            self.undocumented.append(f"{name}: {type(e).__name__}: {e}"[:200])
            new = self.drain()
            return "crashed", e, new, len(self.rec.payloads) - before
        new = self.drain()
        return "ok", None, new, len(self.rec.payloads) - before


def fnum(v):
    """JSON-safe rendering of floats incl. nan/inf."""
    if isinstance(v, float) and not math.isfinite(v):
        return repr(v)
    return v


def approx_pos(pos):
    return {a: (None if v is None else float(v)) for a, v in pos.items()}


def frac(v):
    return Fraction(v)
