#!/bin/sh
# tools/try_mutant.sh <checkout-with-mutant> <checks...> : runs quick checks against another checkout
# (no evidence written, replays go to replays/ as usual). Prints one verdict line per check.
HERE="$(cd "$(dirname "$0")/.." && pwd)"; cd "$HERE" || exit 2
WT="$1"; shift
for c in "$@"; do
  GSCRIB_VERIF_REPO="$WT" ./vcheck "$c" --tier "${TIER:-quick}" > "/tmp/mut_$(basename $WT)_$c.log" 2>&1
  rc=$?
  echo "$c rc=$rc $(grep -h '^VIOLATION\|^INCONCLUSIVE' /tmp/mut_$(basename $WT)_$c.log | head -2 | cut -c1-200) $(grep -h '^  kind=' /tmp/mut_$(basename $WT)_$c.log | head -1 | cut -c1-160)"
done
