#!/bin/sh
# tools/sweep.sh <tier> "<seeds>" [checks...]  -- runs ./vcheck for every check and seed, prints one line each
HERE="$(cd "$(dirname "$0")/.." && pwd)"; cd "$HERE" || exit 2
TIER="$1"; SEEDS="$2"; shift 2
CHECKS="${*:-C01 C02 C03 C04 C05 C06 C07 C08 C09 C10 C11 C12 C13 C14 C15 C16 C17 C18 C19 C20}"
./setup.sh >/dev/null
for seed in $SEEDS; do
  for c in $CHECKS; do
    start=$(date +%s)
    VERIF_SEED=$seed ./vcheck "$c" --tier "$TIER" > "/tmp/sweep_${c}_${TIER}_${seed}.log" 2>&1
    rc=$?
    end=$(date +%s)
    echo "$c tier=$TIER seed=$seed rc=$rc wall=$((end-start))s $(grep -c '^KNOWN-FINDING' /tmp/sweep_${c}_${TIER}_${seed}.log) known $(grep -h '^VIOLATION\|^INCONCLUSIVE' /tmp/sweep_${c}_${TIER}_${seed}.log | head -3 | cut -c1-300)"
  done
done
