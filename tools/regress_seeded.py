#!/usr/bin/env python3
"""Re-runs the quick check of every seeded defect's property against a patched scratch worktree.
Usage: tools/regress_seeded.py [id-substring]   (never touches /repo's working tree)"""
import glob, json, os, subprocess, sys
VERIF = os.path.dirname(os.path.dirname(os.path.abspath(__file__)))
flt = sys.argv[1] if len(sys.argv) > 1 else ""
wt = os.environ.get("REGRESS_WT", "/tmp/wt-regress")
subprocess.run(["git", "-C", "/repo", "worktree", "remove", "--force", wt], capture_output=True)
subprocess.run(["git", "-C", "/repo", "worktree", "add", "-q", wt, "HEAD"], check=True)
missed = []
try:
    for meta_path in sorted(glob.glob(os.path.join(VERIF, "seeded", "*", "meta.json"))):
        m = json.load(open(meta_path))
        if flt not in m["id"]:
            continue
        patch = os.path.join(os.path.dirname(meta_path), "patch.diff")
        subprocess.run(["git", "-C", wt, "checkout", "-q", "--", "."], check=True)
        r = subprocess.run(["git", "-C", wt, "apply", "--whitespace=nowarn", patch], capture_output=True, text=True)
        if r.returncode != 0:
            print(m["id"], "PATCH DOES NOT APPLY"); missed.append(m["id"]); continue
        checks = [m["property"]]
        out = subprocess.run([os.path.join(VERIF, "tools/try_mutant.sh"), wt] + checks,
                             capture_output=True, text=True, cwd=VERIF).stdout
        caught = " rc=1 " in out
        print(m["id"], "caught" if caught else "MISSED", "|", out.strip().splitlines()[0][:140] if out.strip() else "")
        sys.stdout.flush()
        if not caught:
            missed.append(m["id"])
finally:
    subprocess.run(["git", "-C", "/repo", "worktree", "remove", "--force", wt], capture_output=True)
print("missed by the property's own quick check:", missed)
