#!/usr/bin/env python3
"""Which functions of /repo/gscrib do the check workloads actually execute?
Runs a few cases of every check inline under sys.monitoring PY_START and lists
the functions of the anchored files that were never entered.
Usage: /venv/bin/python tools/reach_audit.py [cases-per-check]"""
import ast, collections, importlib, os, sys, logging
HERE = os.path.dirname(os.path.dirname(os.path.abspath(__file__)))
sys.path.insert(0, HERE); sys.path.append(os.path.join(HERE, ".deps"))
from harness.common import Ctx, Collector
N = int(sys.argv[1]) if len(sys.argv) > 1 else 40
calls = collections.Counter()
mon = sys.monitoring
TOOL = 4
mon.use_tool_id(TOOL, "reach")
def on_start(code, offset):
    fn = code.co_filename
    if "/gscrib/" in fn:
        calls[(fn.split("/gscrib/", 1)[1], code.co_qualname)] += 1
    return mon.DISABLE if "/gscrib/" not in fn else None
mon.register_callback(TOOL, mon.events.PY_START, on_start)
mon.set_events(TOOL, mon.events.PY_START)
logging.disable(logging.CRITICAL)
for i in range(1, 21):
    mod = importlib.import_module(f"checks.c{i:02d}")
    params = dict(mod.TIERS["quick"])
    col = Collector()
    n = 2 if i in (15, 16, 17) else N
    for case in range(n):
        ctx = Ctx(mod.PROP, "quick", 0, 0, 1, params, only_case=case)
        try:
            mod.run_shard(ctx, col)
        except BaseException as e:
            print("check", i, "case", case, "raised", type(e).__name__, e)
    print(f"C{i:02d}: {col.evaluations} evaluations, {col.n_violations} violating observations", file=sys.stderr)
mon.set_events(TOOL, 0)
import gscrib
root = os.path.dirname(gscrib.__file__)
never = []
for dp, _, files in os.walk(root):
    for f in files:
        if not f.endswith(".py"): continue
        rel = os.path.relpath(os.path.join(dp, f), root)
        tree = ast.parse(open(os.path.join(dp, f)).read())
        def walk(node, prefix=""):
            for ch in ast.iter_child_nodes(node):
                if isinstance(ch, (ast.FunctionDef, ast.AsyncFunctionDef)):
                    q = prefix + ch.name
                    hit = any(k[0] == rel and (k[1] == q or k[1].endswith("." + ch.name) and k[1].startswith(prefix.rstrip("."))) for k in calls)
                    if not hit:
                        never.append((rel, q))
                    walk(ch, q + ".<locals>.")
                elif isinstance(ch, ast.ClassDef):
                    walk(ch, prefix + ch.name + ".")
        walk(tree)
print("functions entered:", len(calls))
print("never entered:")
for rel, q in sorted(never):
    print("   ", rel, q)
