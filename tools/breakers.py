#!/usr/bin/env python3
"""Planted breakers (DESIGN.md 'B' lists): apply one at a time to a scratch worktree,
run the quick check(s), revert.  Usage: tools/breakers.py /tmp/wt-mine [name-substring]"""
import subprocess, sys, os, json, time
WT = sys.argv[1]
FILTER = sys.argv[2] if len(sys.argv) > 2 else ""
G = "gscrib/"
B = [
 ("c01-rapid_absolute-no-update", G+"gcode_core.py",
  "            statement, params = self._prepare_rapid(move, params, comment)\n            self._update_axes(target_axes, params)\n",
  "            statement, params = self._prepare_rapid(move, params, comment)\n", ["C01"]),
 ("c01-absolute_mode-no-restore", G+"gcode_core.py",
  "        mode = DistanceMode.ABSOLUTE\n        previous = self._distance_mode\n\n        if mode != self._distance_mode:\n            self.set_distance_mode(mode)\n\n        try:\n            yield\n        finally:\n            if previous != self._distance_mode:\n                self.set_distance_mode(previous)\n",
  "        mode = DistanceMode.ABSOLUTE\n        previous = self._distance_mode\n\n        if mode != self._distance_mode:\n            self.set_distance_mode(mode)\n\n        try:\n            yield\n        finally:\n            if previous == self._distance_mode:\n                self.set_distance_mode(previous)\n", ["C01", "C11"]),
 ("c02-halt-no-coolant-guard", G+"gcode_state.py",
  '            self._ensure_coolant_is_inactive("Halt with coolant on.")\n', "", ["C02"]),
 ("c03-within_bounds-strict", G+"geometry/point.py",
  "(min_bound <= value <= max_bound)", "(min_bound < value <= max_bound)", ["C03"]),
 ("c03-feed-no-validate", G+"gcode_state.py",
  '        self._user_bounds.validate("feed-rate", speed)\n', "", ["C03"]),
 ("c04-chain-right-multiply", G+"geometry/transform.py",
  "self._set_matrix(translated_matrix @ self._matrix)", "self._set_matrix(self._matrix @ translated_matrix)", ["C04", "C13"]),
 ("c04-combine-ignore-coupling", G+"geometry/point.py",
  "        y = m.y if self.y is not None or o.y != t.y else None\n", "        y = m.y if self.y is not None else None\n", ["C04"]),
 ("c05-toolnumber-assign-before-interlock", G+"gcode_state.py",
  '        self._validate_tool_number(tool_number)\n        self._ensure_tool_is_inactive("Tool change with tool on.")\n        self._ensure_coolant_is_inactive("Tool change with coolant on.")\n        self._current_tool_number = tool_number\n',
  '        self._validate_tool_number(tool_number)\n        self._current_tool_number = tool_number\n        self._ensure_tool_is_inactive("Tool change with tool on.")\n        self._ensure_coolant_is_inactive("Tool change with coolant on.")\n', ["C05", "C07"]),
 ("c06-emergency-order", G+"gcode_builder.py",
  '        self.tool_off()\n        self.coolant_off()\n        self.comment(f"Emergency halt: {message}")\n',
  '        self.coolant_off()\n        self.tool_off()\n        self.comment(f"Emergency halt: {message}")\n', ["C06"]),
 ("c07-mist-is-m08", G+"codes/gcode_mappings.py", '"M07", "Turn on coolant, mist"', '"M08", "Turn on coolant, mist"', ["C07"]),
 ("c07-halt-ignores-R", G+"gcode_builder.py", '        keys = ["S", "R"]  # Wait when heating, or wait always\n', '        keys = ["S"]  # Wait when heating\n', ["C07"]),
 ("c08-precision-plus-one", G+"formatters/default_formatter.py", "precision=self._decimal_places,", "precision=self._decimal_places + 1,", ["C08"]),
 ("c08-zero-shortcut-tolerant", G+"formatters/default_formatter.py", "        if number == 0:\n", "        if abs(number) < 1e-9:\n", ["C08"]),
 ("c10-helix-turns", G+"geometry/tracer.py", "total_angle = base_angle + turn_angle * (turns - 1)", "total_angle = base_angle + turn_angle * turns", ["C10"]),
 ("c10-filter-drops-last", G+"geometry/tracer.py", "        for i, distance in enumerate(distances[:-1]):\n", "        for i, distance in enumerate(distances):\n", ["C10", "C12"]),
 ("c11-abs-list-no-accumulate", G+"gcode_core.py", "                current += Point(*point).resolve()\n                results.append(current)\n", "                results.append(current + Point(*point).resolve())\n", ["C11"]),
 ("c12-tolerance-half", G+"geometry/tracer.py", "        tolerance = resolution / 10\n", "        tolerance = resolution / 2\n", ["C12"]),
 ("c13-revert-no-stack", G+"geometry/transformer.py", "        self._current_transform = state[0]\n        self._transforms_stack = state[1]\n", "        self._current_transform = state[0]\n", ["C13"]),
 ("c14-append-mode", G+"writers/file_writer.py", 'file_path.open("wb+")', 'file_path.open("ab+")', ["C14"]),
 ("c14-teardown-no-clear", G+"gcode_core.py", "            writer.disconnect(wait)\n\n        self._writers.clear()\n", "            writer.disconnect(wait)\n", ["C14"]),
 ("c15-checksum-over-command", G+"printrun/printcore.py", 'command = prefix + "*" + str(self._checksum(prefix))', 'command = prefix + "*" + str(self._checksum(command))', ["C15"]),
 ("c15-resendfrom-plus-two", G+"printrun/printcore.py", "            self.resendfrom += 1\n            return\n", "            self.resendfrom += 2\n            return\n", ["C15"]),
 ("c16-no-bangbang", G+"writers/printrun_writer.py", "ERROR_PREFIXES = ('error', 'alarm', '!!')", "ERROR_PREFIXES = ('error', 'alarm')", ["C16"]),
 ("c16-no-ack-wait", G+"writers/printrun_writer.py", "            self._send_statement(statement)\n            self._wait_for_acknowledgment()\n", "            self._send_statement(statement)\n", ["C16"]),
 ("c17-drop-remainder", G+"printrun/device.py", "                if eol + 1 < len(chunk):\n                    self._read_buffer.append(chunk[(eol+1):])\n", "", ["C17"]),
 ("c18-fs-swapped", G+"writers/printrun_writer.py", '                    self._update_param("F", float(feed))\n                    self._update_param("S", float(speed))\n', '                    self._update_param("F", float(speed))\n                    self._update_param("S", float(feed))\n', ["C18"]),
 ("c19-rowcol-swap", G+"heightmaps/raster_heightmap.py", "self._interpolator(y, x)[0, 0]", "self._interpolator(x, y)[0, 0]", ["C19"]),
 ("c19-filter-inverted", G+"heightmaps/sparse_heightmap.py", "            if abs(point[2] - last_z) >= tolerance:\n", "            if abs(point[2] - last_z) > 2 * tolerance:\n", ["C19"]),
 ("c20-hook-target-raw", G+"gcode_builder.py", "            target = self.to_absolute(point)\n\n            for hook in self._hooks:", "            target = point.resolve()\n\n            for hook in self._hooks:", ["C20"]),
 ("c20-abs-no-previous-E", G+"hooks/extrusion_hook.py", '            filament_length += state.get_parameter("E") or 0.0\n', '            filament_length += 0.0\n', ["C20"]),
]
results = []
for name, path, old, new, checks in B:
    if FILTER and FILTER not in name:
        continue
    full = os.path.join(WT, path)
    src = open(full).read()
    if old not in src:
        print(f"{name}: PATTERN NOT FOUND"); continue
    open(full, "w").write(src.replace(old, new, 1))
    try:
        out = subprocess.run(["tools/try_mutant.sh", WT] + checks, capture_output=True, text=True, cwd=os.path.dirname(os.path.dirname(os.path.abspath(__file__)))).stdout
    finally:
        open(full, "w").write(src)
    caught = any(" rc=1 " in l for l in out.splitlines())
    print(f"{name}: {'CAUGHT' if caught else 'MISSED'}")
    for l in out.splitlines():
        print("    " + l[:260])
    sys.stdout.flush()
