#!/usr/bin/env python3
"""Deterministic replay of the interleaving behind the C15 witness of quick seed 25 (case 26):
the listener thread stores a new resend request (`self.resendfrom = 8`) after the print thread
has evaluated `self.resendfrom < self.lineno` with the old value and before it evaluates
`self.sentlines[self.resendfrom]`.  The listener's store is injected by a property on a printcore
subclass at exactly that point, so no timing is involved.

Exit 1 (KeyError in _sendnext, the print thread would die) on the tree before the repair, 0 after."""
import sys
from gscrib.printrun.printcore import printcore


class Dev:
    has_flow_control = False
    def write(self, data):
        pass


class P(printcore):
    def __init__(self):
        self.__dict__["_r"] = -1
        self.__dict__["_reads"] = 0
        self.__dict__["_armed"] = False
        super().__init__()

    @property
    def resendfrom(self):
        d = self.__dict__
        v = d["_r"]
        if d["_armed"]:
            d["_reads"] += 1
            if d["_reads"] == 2:
                # what the listener does on "Resend: 8" -- right after the check read the old value
                d["_r"] = 8
        return v

    @resendfrom.setter
    def resendfrom(self, value):
        self.__dict__["_r"] = value


p = P()
p.printer = Dev()
p.online = True
p.printing = True
p.clear = True
p.lineno = 8                                  # lines 0..7 were sent, line 8 not yet
p.sentlines = {n: f"N{n} G1 X{n}*0" for n in range(8)}
p.resendfrom = 6                              # the firmware asked for line 6 a moment ago
p.__dict__["_armed"] = True
try:
    p._sendnext()
except KeyError as e:
    print("print thread would die: KeyError", e, "in _sendnext (sentlines has no line 8 yet)")
    sys.exit(1)
print("resend serviced without an exception; resendfrom is now", p.__dict__["_r"])
sys.exit(0)
