#!/usr/bin/env python3
"""tools/confirm_seeded.py <agent-worktree> <seed-id> <property> <check> [<check>...]
Independently confirms a seeded defect in a fresh scratch worktree of /repo HEAD:
  1. patch applies, full test suite passes apart from the two baseline failures
  2. demo.py exits 1 with the patch and 0 without it
  3. runs the named quick checks against the patched checkout
and stores patch.diff / demo.py / NOTES.md / meta.json under /verif/seeded/<seed-id>/."""
import json, os, shutil, subprocess, sys, time
src, sid, prop, checks = sys.argv[1], sys.argv[2], sys.argv[3], sys.argv[4:]
VERIF = os.path.dirname(os.path.dirname(os.path.abspath(__file__)))
wt = f"/tmp/wt-confirm-{sid}"
subprocess.run(["git", "-C", "/repo", "worktree", "remove", "--force", wt], capture_output=True)
subprocess.run(["git", "-C", "/repo", "worktree", "add", "-q", wt, "HEAD"], check=True)
head = subprocess.run(["git", "-C", "/repo", "rev-parse", "--short", "HEAD"], capture_output=True, text=True).stdout.strip()
meta = {"id": sid, "property": prop, "repo_commit": head, "confirmed_at": time.strftime("%Y-%m-%d %H:%M:%S")}
try:
    diff = open(os.path.join(src, "MUTANT.diff")).read()
    shutil.copy(os.path.join(src, "demo.py"), os.path.join(wt, "demo.py"))
    r = subprocess.run(["git", "-C", wt, "apply", "--whitespace=nowarn", os.path.join(src, "MUTANT.diff")], capture_output=True, text=True)
    meta["patch_applies"] = r.returncode == 0
    if r.returncode != 0:
        print("PATCH DOES NOT APPLY", r.stderr); sys.exit(1)
    t = subprocess.run(["/venv/bin/python", "-m", "pytest", "-q", "-p", "no:cacheprovider", "--timeout=900", "tests"],
                       cwd=wt, capture_output=True, text=True)
    tail = t.stdout.strip().splitlines()[-1] if t.stdout.strip() else ""
    failed = [l.split(" ")[1] for l in t.stdout.splitlines() if l.startswith("FAILED ")]
    allowed = {"tests/test_file_writer.py::test_write_to_invalid_path", "tests/test_printrun_core.py::TestConnect::test_bad_ports"}
    meta["test_suite_with_patch"] = tail
    meta["unexpected_test_failures"] = [f for f in failed if f not in allowed]
    d1 = subprocess.run(["/venv/bin/python", "demo.py"], cwd=wt, capture_output=True, text=True, timeout=600)
    meta["demo_exit_with_patch"] = d1.returncode
    meta["demo_output_with_patch"] = (d1.stdout + d1.stderr)[-1500:]
    out = subprocess.run([os.path.join(VERIF, "tools/try_mutant.sh"), wt] + checks, capture_output=True, text=True, cwd=VERIF).stdout
    meta["checks_against_patch"] = out.strip().splitlines()
    meta["detected_by"] = [l.split(" ")[0] for l in out.splitlines() if " rc=1 " in l]
    subprocess.run(["git", "-C", wt, "apply", "-R", "--whitespace=nowarn", os.path.join(src, "MUTANT.diff")], check=True)
    d0 = subprocess.run(["/venv/bin/python", "demo.py"], cwd=wt, capture_output=True, text=True, timeout=600)
    meta["demo_exit_without_patch"] = d0.returncode
    ok = (not meta["unexpected_test_failures"]) and d1.returncode == 1 and d0.returncode == 0
    meta["confirmed"] = ok
    notes = open(os.path.join(src, "NOTES.md")).read() if os.path.exists(os.path.join(src, "NOTES.md")) else ""
    meta["needs_to_manifest"] = notes[:2500]
    meta["what_was_run"] = ["git apply patch.diff in a fresh worktree of /repo HEAD", "pytest tests (whole suite)",
                            "python demo.py with and without the patch", "tools/try_mutant.sh <worktree> " + " ".join(checks)]
    dest = os.path.join(VERIF, "seeded", sid)
    os.makedirs(dest, exist_ok=True)
    open(os.path.join(dest, "patch.diff"), "w").write(diff)
    shutil.copy(os.path.join(src, "demo.py"), os.path.join(dest, "demo.py"))
    if notes:
        open(os.path.join(dest, "NOTES.md"), "w").write(notes)
    json.dump(meta, open(os.path.join(dest, "meta.json"), "w"), indent=1)
    print(sid, "confirmed" if ok else "NOT CONFIRMED", "| tests:", tail, "| demo:", d1.returncode, d0.returncode, "| detected by:", meta["detected_by"])
finally:
    subprocess.run(["git", "-C", "/repo", "worktree", "remove", "--force", wt], capture_output=True)
