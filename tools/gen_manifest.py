#!/usr/bin/env python3
"""Regenerates MANIFEST.json from the check modules (run from /verif with /venv python)."""
import importlib, json, os, sys, subprocess
HERE = os.path.dirname(os.path.dirname(os.path.abspath(__file__)))
sys.path.insert(0, HERE)
sys.path.append(os.path.join(HERE, ".deps"))

props = [json.loads(l) for l in open(os.path.join(HERE, "properties.jsonl"))]
checks, na = [], []
for p in props:
    pid = p["id"]
    path = os.path.join(HERE, "checks", pid.lower() + ".py")
    if not os.path.exists(path):
        na.append({"property_id": pid, "reason": "not claimed yet: the runtime monitor for this property is still under construction (see DESIGN.md section 3)"})
        continue
    m = importlib.import_module("checks." + pid.lower())
    checks.append({
        "property_id": pid,
        "quick_cmd": f"./vcheck {pid} --tier quick",
        "thorough_cmd": f"./vcheck {pid} --tier thorough",
        "evidence_file": f"/verif/evidence/{pid}.json",
        "replay_cmd_template": f"./vcheck {pid} --replay {{path}}",
        "engine": "vcheck",
        "level_claimed": {
            "category": m.LEVEL,
            "text": getattr(m, "LEVEL_TEXT", "Held on the executions observed by the monitors; reach is limited to the generated workloads (see evidence)."),
            "design_ref": f"DESIGN.md section 3, {pid}",
        },
        "level_note": getattr(m, "LEVEL_NOTE", "; ".join(m.ASSUMPTIONS)),
        "technique": getattr(m, "TECHNIQUE", "runtime monitoring"),
    })
repo_fix_commits = subprocess.run(["git", "-C", "/repo", "log", "--format=%h %s"], capture_output=True, text=True).stdout.splitlines()
manifest = {
    "version": 1,
    "setup_cmd": "./setup.sh",
    "hooks": {
        "guard": "GSCRIB_VERIF",
        "enable": "no source hooks are needed: monitors attach from the harness (add_writer, icontract wrappers, sys.monitoring, device simulators); vcheck exports GSCRIB_VERIF=1 for symmetry",
        "baseline_off_cmd": "cd /repo && env -u GSCRIB_VERIF /venv/bin/python -m pytest -ra -q -p no:cacheprovider --timeout=900 --continue-on-collection-errors",
        "source_commits": [],
        "add_only": True,
    },
    "engines": [{
        "name": "vcheck",
        "path": "/verif/vcheck",
        "serves_properties": [c["property_id"] for c in checks],
        "kind_free_text": "runtime monitoring: real gscrib code under generated/hostile workloads, observed by wire monitors (independent lexer + modal interpreter), reference-model monitors, history checkers, icontract postconditions and device simulators",
    }],
    "checks": checks,
    "not_applicable": na,
    "notes": "All checks: ./vcheck <id> [--tier quick|thorough] [--replay file]; VERIF_SEED seeds every PRNG. Exit 0 held, 1 violation (VIOLATION line + replay file), 2 inconclusive (monitor floors not reached or shard watchdog). known_findings.json lists recorded defects and fixed ones.",
}
with open(os.path.join(HERE, "MANIFEST.json"), "w") as f:
    json.dump(manifest, f, indent=1)
    f.write("\n")
print("checks:", [c["property_id"] for c in checks])
print("not claimed:", [n["property_id"] for n in na])
