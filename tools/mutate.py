#!/usr/bin/env python3
"""Systematic (AST) mutation trial of the checks -- complements the LLM-seeded defects.

  tools/mutate.py plan  <n-per-file> [seed]      -> mutation/plan.json
  tools/mutate.py run   <worker> <nworkers>      -> mutation/results-<worker>.jsonl
  tools/mutate.py report                         -> mutation/report.json + summary on stdout

For every sampled mutation site in the files the properties are anchored in:
  1. the mutant is written to a scratch worktree of /repo (never /repo itself);
  2. the repository's own test suite is run: a mutant it kills is of no interest;
  3. otherwise the quick tier of every check anchored in that file is run against the
     scratch worktree (GSCRIB_VERIF_REPO) and the verdicts are recorded.
Survivors are listed for manual triage (equivalent mutants are common).
"""
import ast
import copy
import json
import os
import random
import subprocess
import sys

VERIF = os.path.dirname(os.path.dirname(os.path.abspath(__file__)))
OUT = os.path.join(VERIF, "mutation")
SKIP_FUNCS = {"pause", "resume", "runSmallScript", "main", "estimate_duration", "prepend_to_layer",
              "rewrite_layer", "_to_image", "save_image", "from_object", "_to_rst", "reset", "_reset_serial",
              "process_host_command", "send_now", "addEventHandler", "logError", "_disable_ttyhup",
              "_setup_signal_handlers", "_on_shutdown_signal", "__repr__", "_is_url", "from_path",
              "cancelprint", "_get_stderr_file", "_listen_until_online", "__init__"}


def anchors():
    files = {}
    for line in open(os.path.join(VERIF, "properties.jsonl")):
        p = json.loads(line)
        for f in p["anchors"]["files"]:
            files.setdefault(f, []).append(p["id"])
    files.pop("gscrib/excepts/gcode_errors.py", None)
    return files


class Sites(ast.NodeVisitor):
    """Collects (kind, lineno, col, detail) mutation sites inside function bodies."""

    def __init__(self):
        self.sites = []
        self.func = []

    def visit_FunctionDef(self, node):
        if node.name in SKIP_FUNCS:
            return
        self.func.append(node.name)
        for i, st in enumerate(node.body):
            if isinstance(st, ast.Expr) and isinstance(st.value, ast.Call) and i > 0:
                self.sites.append(("del-call", st.lineno, st.col_offset, self.func[-1]))
        self.generic_visit(node)
        self.func.pop()

    def generic_visit(self, node):
        if self.func:
            if isinstance(node, ast.Compare) and len(node.ops) == 1:
                self.sites.append(("cmp", node.lineno, node.col_offset, type(node.ops[0]).__name__))
            elif isinstance(node, ast.BinOp) and isinstance(node.op, (ast.Add, ast.Sub, ast.Mult, ast.Div)):
                self.sites.append(("binop", node.lineno, node.col_offset, type(node.op).__name__))
            elif isinstance(node, ast.BoolOp):
                self.sites.append(("boolop", node.lineno, node.col_offset, type(node.op).__name__))
            elif isinstance(node, ast.UnaryOp) and isinstance(node.op, ast.Not):
                self.sites.append(("not", node.lineno, node.col_offset, "Not"))
            elif isinstance(node, ast.Constant) and isinstance(node.value, (int, float)) \
                    and not isinstance(node.value, bool) and abs(node.value) < 1000:
                self.sites.append(("const", node.lineno, node.col_offset, repr(node.value)))
            elif isinstance(node, ast.Constant) and isinstance(node.value, bool):
                self.sites.append(("bool", node.lineno, node.col_offset, repr(node.value)))
        super().generic_visit(node)


QUOTA = {"gscrib/gcode_builder.py": 36, "gscrib/gcode_core.py": 24, "gscrib/gcode_state.py": 20,
         "gscrib/geometry/tracer.py": 30, "gscrib/geometry/transformer.py": 20, "gscrib/printrun/gcoder.py": 8,
         "gscrib/writers/printrun_writer.py": 24, "gscrib/printrun/printcore.py": 24,
         "gscrib/geometry/bounds.py": 16, "gscrib/formatters/default_formatter.py": 16}
CMP = {"Lt": ast.LtE, "LtE": ast.Lt, "Gt": ast.GtE, "GtE": ast.Gt, "Eq": ast.NotEq, "NotEq": ast.Eq,
       "Is": ast.IsNot, "IsNot": ast.Is, "In": ast.NotIn, "NotIn": ast.In}
BIN = {"Add": ast.Sub, "Sub": ast.Add, "Mult": ast.Div, "Div": ast.Mult}


class Apply(ast.NodeTransformer):
    def __init__(self, site):
        self.kind, self.line, self.col, self.detail = site
        self.done = False

    def at(self, node):
        return getattr(node, "lineno", None) == self.line and getattr(node, "col_offset", None) == self.col

    def visit_FunctionDef(self, node):
        if self.kind == "del-call":
            body = []
            for st in node.body:
                if isinstance(st, ast.Expr) and self.at(st) and not self.done:
                    self.done = True
                    body.append(ast.Pass())
                else:
                    body.append(st)
            node.body = body
        self.generic_visit(node)
        return node

    def visit_Compare(self, node):
        self.generic_visit(node)
        if self.kind == "cmp" and self.at(node) and not self.done:
            new = CMP.get(type(node.ops[0]).__name__)
            if new:
                node.ops = [new()]
                self.done = True
        return node

    def visit_BinOp(self, node):
        self.generic_visit(node)
        if self.kind == "binop" and self.at(node) and not self.done:
            node.op = BIN[type(node.op).__name__]()
            self.done = True
        return node

    def visit_BoolOp(self, node):
        self.generic_visit(node)
        if self.kind == "boolop" and self.at(node) and not self.done:
            node.op = ast.Or() if isinstance(node.op, ast.And) else ast.And()
            self.done = True
        return node

    def visit_UnaryOp(self, node):
        self.generic_visit(node)
        if self.kind == "not" and self.at(node) and not self.done:
            self.done = True
            return node.operand
        return node

    def visit_Constant(self, node):
        if self.at(node) and not self.done:
            if self.kind == "const":
                self.done = True
                return ast.copy_location(ast.Constant(node.value + 1), node)
            if self.kind == "bool":
                self.done = True
                return ast.copy_location(ast.Constant(not node.value), node)
        return node


def plan(n_per_file, seed):
    rng = random.Random(seed)
    out = []
    for f, props in sorted(anchors().items()):
        src = open(os.path.join("/repo", f)).read()
        v = Sites()
        v.visit(ast.parse(src))
        sites = sorted(set(v.sites))
        rng.shuffle(sites)
        quota = QUOTA.get(f, n_per_file)
        for s in sites[:quota]:
            out.append({"file": f, "site": list(s), "checks": sorted(set(props))})
    os.makedirs(OUT, exist_ok=True)
    json.dump(out, open(os.path.join(OUT, "plan.json"), "w"), indent=0)
    print(len(out), "mutants planned over", len(anchors()), "files")


def _tests(cmd, **kw):
    """The repository's suite; a hang (some printcore mutants never let the threads end) counts as killed."""
    try:
        return subprocess.run(cmd, **kw)
    except subprocess.TimeoutExpired:
        return subprocess.CompletedProcess(cmd, 124, "", "timeout")


def run(worker, nworkers):
    plan_ = json.load(open(os.path.join(OUT, "plan.json")))
    wt = f"/tmp/mut-{worker}"
    subprocess.run(["git", "-C", "/repo", "worktree", "remove", "--force", wt], capture_output=True)
    subprocess.run(["git", "-C", "/repo", "worktree", "add", "-q", wt, "HEAD"], check=True)
    res_path = os.path.join(OUT, f"results-{worker}.jsonl")
    done = set()
    if os.path.exists(res_path):
        done = {json.loads(l)["index"] for l in open(res_path)}
    try:
        for idx, m in enumerate(plan_):
            if idx % nworkers != worker or idx in done:
                continue
            path = os.path.join(wt, m["file"])
            orig = open(os.path.join("/repo", m["file"])).read()
            tree = ast.parse(orig)
            ap = Apply(tuple(m["site"]))
            new = ap.visit(copy.deepcopy(tree))
            rec = {"index": idx, **m}
            if not ap.done:
                rec["status"] = "not-applied"
            else:
                ast.fix_missing_locations(new)
                open(path, "w").write(ast.unparse(new) + "\n")
                before = orig.splitlines()[m["site"][1] - 1].strip()
                rec["line"] = before[:160]
                t = _tests(["/venv/bin/python", "-m", "pytest", "-q", "-x", "-p", "no:cacheprovider",
                                    "--timeout=120", "tests", "--deselect",
                                    "tests/test_file_writer.py::test_write_to_invalid_path", "--deselect",
                                    "tests/test_printrun_core.py::TestConnect::test_bad_ports"],
                                   cwd=wt, capture_output=True, text=True, timeout=900)
                if t.returncode != 0:
                    rec["status"] = "killed-by-repo-tests"
                else:
                    env = dict(os.environ, GSCRIB_VERIF_REPO=wt)
                    verdicts = {}
                    for c in m["checks"]:
                        p = subprocess.run([os.path.join(VERIF, "vcheck"), c, "--tier", "quick"], cwd=VERIF, env=env,
                                           capture_output=True, text=True)
                        verdicts[c] = p.returncode
                        if p.returncode == 1:
                            break
                    rec["verdicts"] = verdicts
                    rec["status"] = ("detected" if 1 in verdicts.values() else
                                     "inconclusive" if 2 in verdicts.values() else "survived")
                open(path, "w").write(orig)
            with open(res_path, "a") as f:
                f.write(json.dumps(rec) + "\n")
            print(worker, idx, rec["status"], m["file"], m["site"], rec.get("line", ""), flush=True)
    finally:
        subprocess.run(["git", "-C", "/repo", "worktree", "remove", "--force", wt], capture_output=True)


def relocate(site, line_text, src):
    """The plan records line numbers of the tree it was made on; if /repo moved on since (a fix
    commit inserted lines) the site is found again by the text of its line."""
    kind, lineno, col, detail = site
    lines = src.splitlines()
    if lineno - 1 < len(lines) and lines[lineno - 1].strip()[:160] == line_text:
        return site
    hits = [i + 1 for i, l in enumerate(lines) if l.strip()[:160] == line_text]
    if not hits:
        return None
    best = min(hits, key=lambda n: abs(n - lineno))
    return (kind, best, col, detail)


def rerun():
    """Second pass: every mutant that survived or was inconclusive is tried again against the
    checks as they are now (results-rerun.jsonl; the report prefers these)."""
    rows = {}
    for f in sorted(os.listdir(OUT)):
        if f.startswith("results-") and "rerun" not in f:
            for l in open(os.path.join(OUT, f)):
                r = json.loads(l)
                rows[r["index"]] = r
    todo = [r for r in rows.values() if r["status"] in ("survived", "inconclusive")]
    wt = "/tmp/mut-rerun"
    subprocess.run(["git", "-C", "/repo", "worktree", "remove", "--force", wt], capture_output=True)
    subprocess.run(["git", "-C", "/repo", "worktree", "add", "-q", wt, "HEAD"], check=True)
    res_path = os.path.join(OUT, "results-rerun.jsonl")
    done = {json.loads(l)["index"] for l in open(res_path)} if os.path.exists(res_path) else set()
    try:
        for m in sorted(todo, key=lambda r: r["index"]):
            if m["index"] in done:
                continue
            path = os.path.join(wt, m["file"])
            orig = open(os.path.join("/repo", m["file"])).read()
            site = relocate(tuple(m["site"]), m["line"], orig)
            rec = {k: m[k] for k in ("index", "file", "site", "checks", "line")}
            rec["first_pass"] = m["status"]
            ap = None
            if site is not None:
                ap = Apply(site)
                new = ap.visit(ast.parse(orig))
            if site is None or not ap.done:
                rec["status"] = "not-applied"
            else:
                ast.fix_missing_locations(new)
                open(path, "w").write(ast.unparse(new) + "\n")
                env = dict(os.environ, GSCRIB_VERIF_REPO=wt)
                verdicts = {}
                for c in m["checks"]:
                    p = subprocess.run([os.path.join(VERIF, "vcheck"), c, "--tier", "quick"], cwd=VERIF, env=env,
                                       capture_output=True, text=True)
                    verdicts[c] = p.returncode
                    if p.returncode == 1:
                        break
                rec["verdicts"] = verdicts
                rec["status"] = ("detected" if 1 in verdicts.values() else
                                 "inconclusive" if 2 in verdicts.values() else "survived")
                open(path, "w").write(orig)
            with open(res_path, "a") as f:
                f.write(json.dumps(rec) + "\n")
            print(m["index"], m["status"], "->", rec["status"], m["file"], m["site"], m["line"][:80], flush=True)
    finally:
        subprocess.run(["git", "-C", "/repo", "worktree", "remove", "--force", wt], capture_output=True)


def report():
    first = {}
    for f in sorted(os.listdir(OUT)):
        if f.startswith("results-") and "rerun" not in f:
            for l in open(os.path.join(OUT, f)):
                r = json.loads(l)
                first[r["index"]] = r
    rr = os.path.join(OUT, "results-rerun.jsonl")
    if os.path.exists(rr):
        for l in open(rr):
            r = json.loads(l)
            if r["status"] != "not-applied":
                first[r["index"]] = r
    rows = [first[k] for k in sorted(first)]
    import collections
    by = collections.Counter(r["status"] for r in rows)
    per_file = collections.defaultdict(collections.Counter)
    for r in rows:
        per_file[r["file"]][r["status"]] += 1
    surv = [r for r in rows if r["status"] in ("survived", "inconclusive")]
    json.dump({"totals": by, "per_file": per_file, "survivors": surv}, open(os.path.join(OUT, "report.json"), "w"), indent=1)
    print("totals:", dict(by))
    alive = by["detected"] + by["survived"] + by["inconclusive"]
    if alive:
        print(f"mutants not killed by the repository's tests: {alive}; detected by the checks: {by['detected']} "
              f"({100.0 * by['detected'] / alive:.1f}%)")
    for f, c in sorted(per_file.items()):
        print(f"  {f:45s} {dict(c)}")
    print("survivors:")
    for r in surv:
        print("  ", r["status"], r["file"], r["site"], "|", r.get("line", ""), "|", r.get("verdicts"))


if __name__ == "__main__":
    cmd = sys.argv[1]
    if cmd == "plan":
        plan(int(sys.argv[2]), int(sys.argv[3]) if len(sys.argv) > 3 else 0)
    elif cmd == "run":
        run(int(sys.argv[2]), int(sys.argv[3]))
    elif cmd == "rerun":
        rerun()
    else:
        report()
