"""C13 Transform states are saved, restored and inverted exactly.

Monitor: an independent 4x4 matrix / stack / named-snapshot model
(harness.models.TModel, explicit cos/sin rotations, Householder reflections)
is stepped in lock-step with the real CoordinateTransformer; after EVERY
operation the mapping of random probe points, the inverse, the pivot fixed
point and the error behaviour (IndexError / KeyError leave the state alone)
are compared.  An icontract invariant on Transform._set_matrix checks that
the stored inverse really is the inverse after every matrix change.
"""

from __future__ import annotations

import numpy as np

from gscrib import GCodeBuilder

from harness import contracts
from harness.models import TModel, apply_to_model, draw_transform_op

PROP = "C13"
LEVEL = "exploration"
TECHNIQUE = 'lock-step reference model (4x4 matrix, stack, named snapshots) compared after every operation + icontract invariant on Transform._set_matrix'
LEVEL_TEXT = 'Held on random operation sequences with nested contexts, exceptions and repeated named restores.'
RULE = ("random sequences (30-50 ops) of translate/rotate/scale/reflect/mirror/set_pivot/save_state()/"
        "save_state(name)/restore_state()/restore_state(name)/delete_state and nested current_transform()/"
        "named_transform() contexts whose bodies transform, save, restore named states and sometimes "
        "raise; named states are restored repeatedly with mutations in between; names also in padded spellings, "
        "blank names (= the stack); distinct = (operation, "
        "stack depth, number of names, inside a context?)")
ASSUMPTIONS = [
    "reference: harness.models.TModel (T' = Tr(p).A.Tr(-p).T, snapshots by value)",
    "tolerance 1e-9 relative to the matrix norm; inverse round trip scaled by the condition number",
    "scale factors in [1/4, 4], nesting depth <= 3, <= 8 chained transforms between restores on average",
]
TIERS = {
    "quick": {"shards": 16, "cases": 1600, "ops": 40, "timeout": 300},
    "thorough": {"shards": 16, "cases": 200000, "ops": 50, "timeout": 3000},
}
FLOORS = {
    "quick": {"counts": {"mapping_comparisons": 150000, "named_restores": 2000, "context_exits": 2500,
                         "context_exits_by_exception": 400, "pivot_fixed_checks": 10000,
                         "inverse_invariant_evals": 15000, "error_cases": 1500}, "keys": 150},
    "thorough": {"counts": {"mapping_comparisons": 8000000, "named_restores": 200000}, "keys": 250},
}
NAMES = ["a", "b", "job", "left"]
# blank names mean "the stack" and surrounding blanks are not part of a name (documented strip())
SPELLINGS = {"a": [" a", "a "], "b": ["b\t"], "job": ["  job  "], "left": [" left"]}


def spell(rng, n):
    """the name itself, one of its padded spellings, or (rarely) a blank name"""
    r = rng.random()
    if r < 0.12:
        return rng.choice(SPELLINGS[n]) if n in SPELLINGS else n
    return n


class BodyError(Exception):
    pass


class Run:
    def __init__(self, ctx, col, case, rng):
        self.ctx, self.col, self.case, self.rng = ctx, col, case, rng
        self.g = GCodeBuilder()
        self.t = self.g.transform
        self.m = TModel()
        self.log = []
        self.failed = False
        self.depth = 0
        self.left = ctx.params["ops"]
        self.probes = [tuple(rng.uniform(-100, 100) for _ in range(3)) for _ in range(3)]
        self.keys = set()

    def fail(self, kind, mech=None, **detail):
        if self.failed:
            return
        self.failed = True
        self.col.violation(kind, self.ctx.case_ref(self.case),
                           {"history": self.log[-14:], "stack_depth_model": len(self.m.stack),
                            "names_model": sorted(self.m.names), **detail}, mechanism=mech)

    def compare(self, after):
        if self.failed:
            return
        t, m = self.t, self.m
        scale = max(1.0, m.norm())
        for p in self.probes:
            self.col.count("mapping_comparisons")
            got = t.apply_transform(p)
            want = m.apply(p)
            if max(abs(a - b) for a, b in zip(got, want)) > 1e-9 * scale * 100:
                return self.fail("mapping-differs-from-model", after=after, point=p,
                                 got=list(got), model=list(want), mech=f"c13:mapping:{after}")
            back = t.reverse_transform(got)
            tol = 1e-11 * max(1.0, m.cond()) * scale * 100
            if max(abs(a - b) for a, b in zip(back, p)) > tol:
                return self.fail("reverse-of-transformed-point-differs", after=after, point=p,
                                 back=list(back), tolerance=tol)
        self.keys.add((after, min(len(m.stack), 4), len(m.names), self.depth > 0))

    def step(self):
        rng, t, m = self.rng, self.t, self.m
        self.left -= 1
        r = rng.random()
        if r < 0.45:
            name, args = draw_transform_op(rng)
            if name in ("rotate", "scale", "reflect", "mirror"):
                # fixed point of the pivot: x0 with T(x0) = pivot must still map to the pivot
                pivot = m.pivot
                x0 = t.reverse_transform(pivot)
            if name == "set_pivot":
                t.set_pivot(args[0])
            else:
                getattr(t, name)(*args)
            apply_to_model(m, name, args)
            self.log.append([name, _r(args)])
            if name in ("rotate", "scale", "reflect", "mirror"):
                self.col.count("pivot_fixed_checks")
                img = t.apply_transform(x0)
                tol = 1e-9 * max(1.0, m.norm()) * max(1.0, m.cond()) * 100
                if max(abs(a - b) for a, b in zip(img, pivot)) > tol:
                    return self.fail("pivot-moved", op=name, pivot=list(pivot), image=list(img))
            self.compare(name)
        elif r < 0.55:
            if rng.random() < 0.5:
                if rng.random() < 0.15:
                    blank = rng.choice(["", " ", "\t "])
                    t.save_state(blank); m.save(blank); self.log.append(["save_state", blank])
                    self.col.count("blank_name_calls")
                else:
                    t.save_state(); m.save(); self.log.append(["save_state"])
                self.compare("save_state")
            else:
                n = spell(rng, rng.choice(NAMES))
                t.save_state(n); m.save(n); self.log.append(["save_state", n])
                self.compare("save_state(name)")
        elif r < 0.72:
            named = rng.random() < 0.6
            n = None
            if named:
                n = rng.choice(sorted(m.names)) if (m.names and rng.random() < 0.85) else rng.choice(NAMES)
                n = spell(rng, n)
            elif rng.random() < 0.15:
                n = rng.choice(["", " "])       # a blank name restores from the stack
                named = True
                self.col.count("blank_name_calls")
            self.log.append(["restore_state", n])
            exc_real = exc_model = None
            try:
                t.restore_state(n) if named else t.restore_state()
            except (IndexError, KeyError) as e:
                exc_real = type(e).__name__
            try:
                m.restore(n)
            except (IndexError, KeyError) as e:
                exc_model = type(e).__name__
            if exc_real != exc_model:
                return self.fail("restore-error-behaviour-differs", real=exc_real, model=exc_model)
            if exc_real:
                self.col.count("error_cases")
            elif named and n.strip():
                self.col.count("named_restores")
            self.compare("restore_state(name)" if named and n.strip() else "restore_state")
        elif r < 0.77:
            n = rng.choice(NAMES)
            self.log.append(["delete_state", n])
            exc_real = exc_model = None
            try:
                t.delete_state(n)
            except KeyError:
                exc_real = "KeyError"
            try:
                m.delete(n)
            except KeyError:
                exc_model = "KeyError"
            if exc_real != exc_model:
                return self.fail("delete-error-behaviour-differs", real=exc_real, model=exc_model)
            if exc_real:
                self.col.count("error_cases")
            self.compare("delete_state")
        elif self.depth < 3:
            named = rng.random() < 0.4 and m.names
            will_raise = rng.random() < 0.25
            snap = m.context_snapshot()
            self.depth += 1
            try:
                if named:
                    n = rng.choice(sorted(m.names) + ["missing"] if rng.random() < 0.1 else sorted(m.names))
                    self.log.append(["enter named_transform", n])
                    try:
                        with self.g.named_transform(n):
                            m.restore(n)
                            self.compare("named_transform.enter")
                            self.body()
                            if will_raise:
                                raise BodyError()
                    except KeyError:
                        self.col.count("error_cases")
                        if n in m.names:
                            return self.fail("named_transform-raised-KeyError-for-existing-name", name=n)
                else:
                    self.log.append(["enter current_transform"])
                    with self.g.current_transform():
                        self.compare("current_transform.enter")
                        self.body()
                        if will_raise:
                            raise BodyError()
            except BodyError:
                self.col.count("context_exits_by_exception")
            finally:
                self.depth -= 1
            m.context_revert(snap)
            self.log.append(["exit context", "raised" if will_raise else "normal"])
            self.col.count("context_exits")
            self.compare("context.exit")

    def body(self):
        for _ in range(self.rng.randint(1, 6)):
            if self.left <= 0 or self.failed:
                return
            self.step()

    def run(self):
        while self.left > 0 and not self.failed:
            self.step()
        # final: unwind the whole stack on both sides
        while not self.failed:
            exc_real = exc_model = None
            try:
                self.t.restore_state()
            except IndexError:
                exc_real = "IndexError"
            try:
                self.m.restore()
            except IndexError:
                exc_model = "IndexError"
            self.log.append(["final restore_state"])
            if exc_real != exc_model:
                self.fail("stack-depth-differs-from-model", real=exc_real, model=exc_model,
                          mech="c13:stack-depth")
            if exc_real or exc_model:
                break
            self.compare("final-unwind")


def _r(args):
    out = []
    for a in args:
        if hasattr(a, "tolist"):
            out.append([[round(v, 6) for v in row] for row in a.tolist()])
        elif isinstance(a, (list, tuple)):
            out.append([float(v) for v in a])
        else:
            out.append(a)
    return out


def run_shard(ctx, col):
    contracts.install_transform_invariant()
    for case in ctx.cases():
        rng = ctx.rng(case)
        run = Run(ctx, col, case, rng)
        n0 = contracts.EVALS["transform.invariant"]
        try:
            run.run()
        except contracts.ContractBroken as e:
            run.fail("inverse-invariant-broken", witness=e.args[1])
        col.count("inverse_invariant_evals", contracts.EVALS["transform.invariant"] - n0)
        col.evaluations += 1
        for k in run.keys:
            col.key(*k)
        if case % 397 == 0:
            col.sample({"case": case, "history": run.log[:16],
                        "final_matrix_model": np.round(run.m.M, 6).tolist()})
