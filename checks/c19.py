"""C19 Heightmaps interpolate faithfully and sample paths within tolerance.

Monitor: direct recomputation from the stored data (pixels / CSV points) and,
for sample_path, a recording subclass that overrides the public
get_depth_at() to observe every candidate sample the implementation looks at.
"""

from __future__ import annotations

import math
import os
import shutil
import tempfile

import cv2 as cv
import numpy as np

from gscrib.heightmaps import RasterHeightMap, SparseHeightMap

PROP = "C19"
LEVEL = "exploration"
TECHNIQUE = 'direct recomputation from stored data + recording subclass observing every candidate sample of sample_path'
LEVEL_TEXT = 'Held on random 8/16-bit images (array and PNG) and point sets (array and CSV/TSV), lines inside/crossing/outside; one listed known finding.'
RULE = ("random 8/16-bit images (4x4 .. 64x48, mostly non-square, half of them loaded through from_path/PNG) "
        "and random point sets (4..60 points, non-collinear, half through from_path/CSV), scales and "
        "tolerances over three decades, queries at every stored sample, inside/outside the data, and 6 "
        "lines per map (inside, crossing, outside, degenerate); distinct = (map kind, dtype/size class, "
        "line class, tolerance decade)")
ASSUMPTIONS = [
    "raster samples are float32-normalised: relative tolerance 1e-6; sparse samples 1e-9",
    "hull queries stay >= 1e-6 (relative) away from the hull boundary",
    "raster lines use integer end points (the implementation rounds them)",
]
TIERS = {
    "quick": {"shards": 16, "cases": 640, "timeout": 300},
    "thorough": {"shards": 16, "cases": 32000, "timeout": 3000},
}
FLOORS = {
    "quick": {"counts": {"stored_samples_checked": 150000, "outside_queries": 5000, "hull_queries": 2500,
                         "paths_checked": 2500, "dropped_candidates_checked": 20000}, "keys": 60},
    "thorough": {"counts": {"stored_samples_checked": 7000000, "paths_checked": 150000}, "keys": 90},
}


def recording(cls):
    class Rec(cls):
        __slots__ = ("_cands",)

        def get_depth_at(self, x, y):
            z = super().get_depth_at(x, y)
            c = getattr(self, "_cands", None)
            if c is not None:
                c.append((float(x), float(y), float(z)))
            return z
    return Rec


RecRaster = recording(RasterHeightMap)
RecSparse = recording(SparseHeightMap)


def check_path(col, fail, hm, line, tol, kind, on_line_eps):
    """sample_path oracle shared by both map kinds. Returns False on violation."""
    hm._cands = []
    try:
        pts = hm.sample_path(line)
    except Exception as e:      # a well-formed line (four finite numbers) must be sampled
        hm._cands = None
        return fail("sample_path-raised-on-a-valid-line", line=line, error=repr(e))
    cands = list(hm._cands)
    hm._cands = None
    col.count("paths_checked")
    pts = [tuple(float(v) for v in p) for p in np.asarray(pts)]
    x1, y1, x2, y2 = line
    if kind == "raster":
        x1, y1, x2, y2 = [float(round(v)) for v in line]
    if not pts:
        return fail("sample_path-empty", line=line)
    if math.dist(pts[0][:2], (x1, y1)) > on_line_eps or math.dist(pts[-1][:2], (x2, y2)) > on_line_eps:
        return fail("path-does-not-start-or-end-at-the-line-ends", line=line, first=pts[0], last=pts[-1])
    # on the line, in order
    dx, dy = x2 - x1, y2 - y1
    L2 = dx * dx + dy * dy
    last_t = -1e-9
    for p in pts:
        if L2 > 0:
            t = ((p[0] - x1) * dx + (p[1] - y1) * dy) / L2
            off = abs((p[0] - x1) * dy - (p[1] - y1) * dx) / math.sqrt(L2)
        else:
            t, off = 0.0, math.dist(p[:2], (x1, y1))
        lim = 0.5 + 1e-9 if kind == "raster" else 1e-9 * max(1.0, math.sqrt(L2))
        if off > lim * (1.5 if kind == "raster" else 1):
            return fail("path-point-off-the-line", line=line, point=p, offset=off)
        if t < last_t - 1e-9:
            return fail("path-points-out-of-order", line=line, point=p)
        last_t = t
        # carries the map's own height at its location
        z = float(type(hm).__mro__[1].get_depth_at(hm, p[0], p[1]))
        if abs(z - p[2]) > 1e-9 * max(1.0, abs(z)):
            return fail("path-height-is-not-the-map-height", line=line, point=p, map_height=z)
    # ordered subsequence of the candidates with first and last; dropped ones within tolerance
    if not cands:
        return fail("no-candidates-observed", line=line)
    if pts[0] != cands[0] or pts[-1] != cands[-1]:
        return fail("first-or-last-candidate-dropped", line=line, first=pts[0], cand_first=cands[0],
                    last=pts[-1], cand_last=cands[-1])
    j = 0
    kept_z = pts[0][2]
    for c in cands:
        if j < len(pts) and c == pts[j]:
            kept_z = c[2]
            j += 1
            continue
        col.count("dropped_candidates_checked")
        if abs(c[2] - kept_z) >= tol * (1 + 1e-12) + 1e-15:
            return fail("dropped-sample-differs-by-tolerance-or-more", line=line, dropped=c,
                        previously_kept_height=kept_z, tolerance=tol)
    if j != len(pts):
        return fail("returned-points-are-not-a-subsequence-of-the-candidates", line=line,
                    unmatched=pts[j], n_points=len(pts), n_candidates=len(cands))
    return True


def raster_case(ctx, col, case, rng, tmp):
    w, h = rng.choice([(4, 4), (5, 4), (8, 6), (17, 9), (32, 20), (64, 48), (12, 31)])
    bits = rng.choice([8, 16])
    npr = np.random.default_rng(rng.randrange(2 ** 32))
    maxv = 255 if bits == 8 else 65535
    style = rng.choice(["noise", "ramp", "steps"])
    if style == "noise":
        img = npr.integers(0, maxv + 1, size=(h, w))
    elif style == "ramp":
        img = (np.add.outer(np.arange(h) * 3, np.arange(w)) * (maxv // (3 * h + w))).clip(0, maxv)
    else:
        img = (npr.integers(0, 4, size=(h, w)) * (maxv // 3))
    img = img.astype(np.uint8 if bits == 8 else np.uint16)
    via_file = rng.random() < 0.5
    if via_file:
        path = os.path.join(tmp, f"img{case}.png")
        cv.imwrite(path, img)
        base = RasterHeightMap.from_path(path)
    hm = RecRaster(img)
    scale = 10 ** rng.uniform(-1, 2)
    tol = 10 ** rng.uniform(-3, 0) * scale
    try:
        hm.set_scale(scale)
        hm.set_tolerance(tol)
    except ValueError as e:
        # the statement is quantified over all positive scales and tolerances
        col.violation("positive-scale-or-tolerance-rejected", ctx.case_ref(case),
                      {"kind": "raster", "scale": scale, "tolerance": tol, "error": repr(e)},
                      mechanism="c19:raster:configuration-rejected")
        return False
    info = {"kind": "raster", "size": [w, h], "bits": bits, "scale": scale, "tolerance": tol, "style": style}

    def fail(what, **d):
        col.violation(what, ctx.case_ref(case), {**info, **d}, mechanism=f"c19:raster:{what}")
        return False

    if hm.get_width() != w or hm.get_height() != h:
        return fail("width-height-swapped", width=hm.get_width(), height=hm.get_height())
    maps = [hm] + ([base] if via_file else [])
    for m in maps:
        m.set_scale(scale)
        for row in range(h):
            for colx in range(w):
                col.count("stored_samples_checked")
                want = scale * float(np.float32(img[row, colx]) / np.float32(maxv))
                got = float(RasterHeightMap.get_depth_at(m, colx, row))
                if abs(got - want) > 1e-6 * scale + 1e-6 * abs(want):
                    return fail("stored-sample-not-reproduced", x=colx, y=row, got=got, want=want,
                                loaded_from_file=m is not hm)
    for _ in range(12):
        x, y = rng.choice([(-1, 0), (w, 0), (0, h), (0, -0.001), (w + 5.5, h / 2), (w / 2, h + 0.25),
                           (-3.5, -3.5), (w, h), (rng.uniform(-50, -0.01), rng.uniform(0, h)),
                           (rng.uniform(0, w), rng.uniform(h, h + 50))])
        col.count("outside_queries")
        got = float(RasterHeightMap.get_depth_at(hm, x, y))
        if got != 0.0:
            return fail("nonzero-outside-the-image", x=x, y=y, got=got)
    for lc in ("inside", "inside", "crossing", "outside", "degenerate", "axis"):
        if lc == "inside":
            line = [rng.randrange(w), rng.randrange(h), rng.randrange(w), rng.randrange(h)]
        elif lc == "crossing":
            line = [rng.randrange(w), rng.randrange(h), rng.randrange(w, w + 10), rng.randrange(-5, h + 5)]
        elif lc == "outside":
            line = [w + 2, rng.randrange(h), w + 9, rng.randrange(h)]
        elif lc == "degenerate":
            p = [rng.randrange(w), rng.randrange(h)]
            line = p + p
        else:
            r = rng.randrange(h)
            line = [0, r, w - 1, r]
        col.key("raster", f"{bits}bit:{'small' if w * h <= 64 else 'large'}", lc, int(math.floor(math.log10(tol / scale))))
        if not check_path(col, fail, hm, [float(v) for v in line], tol, "raster", 1e-9):
            return False
    return True


def sparse_case(ctx, col, case, rng, tmp):
    n = rng.randint(4, 60)
    span = rng.choice([10.0, 100.0, 1000.0])
    while True:
        pts = np.array([[rng.uniform(0, span), rng.uniform(0, span), rng.uniform(-5, 5)] for _ in range(n)])
        xy = pts[:, :2] - pts[0, :2]
        if np.linalg.matrix_rank(xy, tol=1e-6 * span) >= 2:
            break
    via_file = rng.random() < 0.5
    if via_file:
        ext = rng.choice([".csv", ".tsv"])
        path = os.path.join(tmp, f"pts{case}{ext}")
        np.savetxt(path, pts, delimiter="\t" if ext == ".tsv" else ",", fmt="%.17g")
        loaded = SparseHeightMap.from_path(path)
    hm = RecSparse(pts)
    scale = 10 ** rng.uniform(-1, 2)
    tol = 10 ** rng.uniform(-2, 0) * scale
    try:
        hm.set_scale(scale)
        hm.set_tolerance(tol)
    except ValueError as e:
        # the statement is quantified over all positive scales and tolerances
        col.violation("positive-scale-or-tolerance-rejected", ctx.case_ref(case),
                      {"kind": "sparse", "scale": scale, "tolerance": tol, "error": repr(e)},
                      mechanism="c19:sparse:configuration-rejected")
        return False
    info = {"kind": "sparse", "points": n, "span": span, "scale": scale, "tolerance": tol}

    def fail(what, **d):
        col.violation(what, ctx.case_ref(case), {**info, **d}, mechanism=f"c19:sparse:{what}")
        return False

    zmin, zmax = float(pts[:, 2].min()), float(pts[:, 2].max())
    maps = [hm] + ([loaded] if via_file else [])
    for m in maps:
        m.set_scale(scale)
        for x, y, z in pts:
            col.count("stored_samples_checked")
            got = float(SparseHeightMap.get_depth_at(m, float(x), float(y)))
            if abs(got - scale * z) > 1e-9 * scale * max(1.0, abs(z)):
                # known mechanism: a data point that is a vertex of the convex hull is occasionally
                # classified as outside by the triangulation's point location and gets the fill value
                from scipy.spatial import ConvexHull
                idx = int(np.argmin(np.abs(pts[:, 0] - x) + np.abs(pts[:, 1] - y)))
                on_hull = idx in set(ConvexHull(pts[:, :2]).vertices)
                what = "stored-sample-not-reproduced"
                col.violation(what, ctx.case_ref(case),
                              {**info, "x": x, "y": y, "got": got, "want": scale * z,
                               "loaded_from_file": m is not hm, "is_hull_vertex": on_hull},
                              mechanism=("c19:sparse:hull-vertex-gets-fill-value" if on_hull and got == 0.0
                                         else f"c19:sparse:{what}"))
                return False
    for _ in range(10):
        # strictly inside the hull: a convex combination of three data points
        i, j, k = rng.sample(range(n), 3)
        a, b = rng.uniform(0.05, 0.9), rng.uniform(0.05, 0.9)
        if a + b > 0.95:
            a, b = a / 2, b / 2
        q = pts[i, :2] * (1 - a - b) + pts[j, :2] * a + pts[k, :2] * b
        col.count("hull_queries")
        got = float(SparseHeightMap.get_depth_at(hm, float(q[0]), float(q[1]))) / scale
        if not (zmin - 1e-9 <= got <= zmax + 1e-9):
            return fail("interpolated-value-outside-min-max", x=q[0], y=q[1], got=got, zmin=zmin, zmax=zmax)
    for _ in range(10):
        q = rng.choice([(-0.01 * span, rng.uniform(0, span)), (1.01 * span, rng.uniform(0, span)),
                        (rng.uniform(0, span), -5 * span), (2 * span, 2 * span)])
        col.count("outside_queries")
        got = float(SparseHeightMap.get_depth_at(hm, float(q[0]), float(q[1])))
        if got != 0.0:
            return fail("nonzero-outside-the-data", x=q[0], y=q[1], got=got)
    for lc in ("inside", "inside", "crossing", "outside", "degenerate"):
        if lc == "inside":
            i, j = rng.sample(range(n), 2)
            line = [pts[i, 0], pts[i, 1], pts[j, 0], pts[j, 1]]
        elif lc == "crossing":
            line = [rng.uniform(0, span), rng.uniform(0, span), rng.uniform(span, 2 * span), rng.uniform(-span, 2 * span)]
        elif lc == "outside":
            line = [1.5 * span, 0.0, 2.5 * span, span]
        else:
            line = [pts[0, 0], pts[0, 1], pts[0, 0], pts[0, 1]]
        # keep the candidate count bounded (spacing = tolerance)
        length = math.hypot(line[2] - line[0], line[3] - line[1])
        if length / tol > 4000:
            hm.set_tolerance(length / 4000)
        use_tol = hm._tolerance
        col.key("sparse", f"n{'<=8' if n <= 8 else '>8'}:{'file' if via_file else 'array'}", lc,
                int(math.floor(math.log10(use_tol / scale))))
        if not check_path(col, fail, hm, [float(v) for v in line], use_tol, "sparse", 1e-9 * max(1.0, span)):
            return False
        hm.set_tolerance(tol)
    return True


def flat_case(ctx, col, case, rng):
    from gscrib.heightmaps import FlatHeightMap
    hm = FlatHeightMap()
    for _ in range(5):
        x, y = rng.uniform(-1e3, 1e3), rng.uniform(-1e3, 1e3)
        col.count("outside_queries")
        if float(hm.get_depth_at(x, y)) != 0.0:
            col.violation("flat-map-nonzero", ctx.case_ref(case), {"x": x, "y": y})
            return
    line = [rng.uniform(-50, 50) for _ in range(4)]
    try:
        pts = np.asarray(hm.sample_path(line))
    except Exception as e:
        col.violation("sample_path-raised-on-a-valid-line", ctx.case_ref(case), {"kind": "flat", "line": line, "error": repr(e)})
        return
    col.count("paths_checked")
    if pts.shape != (2, 3) or list(pts[0]) != [line[0], line[1], 0.0] or list(pts[1]) != [line[2], line[3], 0.0]:
        col.violation("flat-map-path", ctx.case_ref(case), {"line": line, "points": pts.tolist()})
    col.key("flat", "-", "line", 0)


def run_shard(ctx, col):
    tmp = tempfile.mkdtemp(prefix="c19_")
    try:
        for case in ctx.cases():
            rng = ctx.rng(case)
            if case % 2 == 0:
                raster_case(ctx, col, case, rng, tmp)
            else:
                sparse_case(ctx, col, case, rng, tmp)
            if case % 8 == 0:
                flat_case(ctx, col, case, rng)
            col.evaluations += 1
            if case % 211 in (0, 1):
                col.sample({"case": case, "kind": "raster" if case % 2 == 0 else "sparse"})
    finally:
        shutil.rmtree(tmp, ignore_errors=True)
