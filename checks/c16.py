"""C16 Direct-write statements are delivered synchronously and errors surface.

Monitor: an offline history checker.  Client events (call / return / raise of
every SerialWriter / SocketWriter.write) and device events (line received,
reply stamped BEFORE it is sent) share one monotonic clock in one process.
The real writer, printcore threads, pyserial and sockets run unmodified
against a PTY Marlin model or a loopback TCP Grbl model.
"""

from __future__ import annotations

import logging
import sys
import threading
import time

from gscrib import GCodeBuilder
from gscrib.excepts import DeviceError
from gscrib.writers import SerialWriter, SocketWriter

from harness import sched
from harness.devices import Behaviour, GrblTCP, MarlinPTY
from harness.wire import RecordingWriter

PROP = "C16"
LEVEL = "fault_enumeration"
TECHNIQUE = 'offline history checker over client call/return events and device receive/reply events (one monotonic clock); PTY Marlin and TCP Grbl device models; strict and counting synchrony predicates; yield injection'
LEVEL_TEXT = 'Error replies enumerated at every position of short sequences on both transports, plus random behaviours (latency, noise, reports, async errors, loss, short timeouts). Listed known finding excepted.'
RULE = ("statement sequences (3-12 statements produced by GCodeBuilder) written through SerialWriter (PTY "
        "Marlin model) and SocketWriter (loopback TCP Grbl model); per-statement ack latency classes up to "
        "400 ms, unsolicited status lines and position/temperature reports before the ack, error replies "
        "(error:/Error:/ALARM:/!!) ENUMERATED at every position of 4-statement sequences and random "
        "elsewhere, connection loss at random positions (safety only); start regimes 'quiesced' and "
        "'immediate'; yield injection in the writer and printcore threads; distinct = (transport, latency "
        "class, error position class, start regime, reply-pattern signature)")
ASSUMPTIONS = [
    "device models: harness.devices (one final reply per statement: 'ok' or an error line; Grbl-style, the error line replaces the ok)",
    "ack(i) is stamped by the device before it writes the reply, so 'write(i) returned before ack(i)' cannot be a clock artefact",
    "quiesced start: the harness waits until the device has been idle for 0.4 s after connect(), i.e. every handshake reply was sent and consumed",
    "after a connection loss only safety is judged (no normal return without an ack); a blocked call is recorded, not judged",
]
TIERS = {
    "quick": {"shards": 32, "cases": 32, "random_scenarios": 5, "timeout": 500, "parallel": 32},
    "thorough": {"shards": 32, "cases": 32, "random_scenarios": 250, "timeout": 3400, "parallel": 32},
}
FLOORS = {
    "quick": {"counts": {"statements_with_brackets_or_semicolon": 80, "scenarios": 180, "statements_with_inner_blank_runs_or_tabs": 30, "writes_checked": 800, "strict_sync_checks": 600,
                         "readings_checked": 200, "error_replies": 60, "errors_raised_correctly": 40,
                         "yields_injected": 20000}, "keys": 80, "max_inconclusive_frac": 0.2},
    "thorough": {"counts": {"scenarios": 2500, "writes_checked": 15000}, "keys": 300, "max_inconclusive_frac": 0.2},
}
ENUMERATED = {"quick": "error reply at every position 0..3 of a 4-statement sequence x 4 error spellings x 2 transports (quiesced start)",
              "thorough": "same enumeration, both start regimes"}
LAT = {"0": (0.0, 0.0), "1-5ms": (0.001, 0.005), "20-60ms": (0.02, 0.06), "150-400ms": (0.15, 0.4)}
ERRORS = [b"error:20", b"Error:Printer halted. kill() called!", b"ALARM:1", b"!! Heater failure"]


class Script(Behaviour):
    def __init__(self, rng, lat, errors_at, report_at, noise_at, drop_at, transport, async_after=None):
        self.rng = rng
        self.lo, self.hi = LAT[lat]
        self.errors_at = dict(errors_at)     # index -> error line
        self.report_at = set(report_at)
        self.noise_at = set(noise_at)
        self.drop_at = drop_at
        self.transport = transport
        self.reported = {}                   # index -> X value reported for that statement
        self.reported_on_ack = {}            # index -> T value carried by the acknowledgement line itself
        self.async_error_after = dict(async_after or {})   # index -> error line sent while idle
        self.async_gap = 0.05
        self.extra_gap = 0.0

    def latency(self, dev, index, line):
        return self.rng.uniform(self.lo, self.hi)

    def handshake_latency(self, dev):
        return self.rng.uniform(self.lo, self.hi)

    def before_ack(self, dev, index, line):
        out = []
        if index in self.noise_at:
            out.append(self.rng.choice([b"echo:busy: processing", b"//action:notification heating",
                                        b"echo:Unknown command: \"foo\""]))
        if index in self.report_at:
            x = index + 0.25
            if self.rng.random() < 0.5:
                # an unsolicited status report with the SAME letters and older values arrives first
                # (auto-report, busy echo): the reading requested by this statement comes after it
                stale = 900.0 + index
                if self.transport == "socket":
                    out.append(b"<Run|MPos:%.3f,8.000,9.000|FS:100,0>" % stale)
                else:
                    out.append(b"X:%.2f Y:8.00 Z:9.00 E:0.00 Count X:1 Y:1 Z:1" % stale)
                    if self.rng.random() < 0.5:
                        out.append(b"T:%d.0 /0.0 B:20.0 /0.0 C:%d.0 /0.0" % (900 + index, 900 + index))
            self.reported[index] = x
            if self.transport == "socket":
                out.append(b"<Idle|MPos:%.3f,2.000,3.000|FS:500,0>" % x)
            else:
                out.append(b"X:%.2f Y:2.00 Z:3.00 E:0.00 Count X:80 Y:160 Z:240" % x)
        return out

    def final_reply(self, dev, index, line):
        if index in self.errors_at:
            return self.errors_at[index]
        if index in self.report_at and self.transport == "serial" and self.rng.random() < 0.5:
            # Marlin also reports temperatures on the acknowledgement line itself
            self.reported_on_ack[index] = 100 + index + 0.5
            return b"ok T:%d.5 /0.0 B:21.0 /0.0 C:%d.5 /0.0 @:0 B@:0" % (100 + index, 100 + index)
        return b"ok"

    def drop_connection(self, dev, index, line):
        return self.drop_at is not None and index == self.drop_at


def make_statements(rng, n, blank_ok=False):
    g = GCodeBuilder()
    rec = RecordingWriter()
    g.add_writer(rec)
    g.set_axis(x=0, y=0, z=0)
    while len(rec.payloads) < n + 1:
        r = rng.random()
        if blank_ok and r < 0.08:
            # an empty statement: a Grbl-like controller acknowledges it like any other line
            g.write(rng.choice(["", "  "]))
        elif r < 0.12:
            # free-form statements: runs of blanks and tabs inside a statement are part of it ("unmodified")
            g.write(rng.choice(["M117 Layer  2/12", "M117 tool   change  now", "G1\tX1.5\tY2", "M118  E1   hello",
                                "G1  X3 Y4", "M117 a\t\tb",
                                # text in brackets / after a semicolon is part of the statement too
                                "M117 Layer (3/10) done", "G1 X11.5 Y-3 ; outer wall", "M118 (a) b ; c (d)"]))
        elif r < 0.5:
            g.move(x=round(rng.uniform(-50, 50), 3), y=round(rng.uniform(-50, 50), 3), F=1200)
        elif r < 0.7:
            g.rapid(z=round(rng.uniform(0, 5), 2))
        elif r < 0.8:
            g.query(rng.choice(["position", "temperature"]))
        elif r < 0.9:
            g.set_feed_rate(rng.choice([600, 900]))
        else:
            g.set_bed_temperature(60)
    return rec.payloads[1:n + 1]


def run_scenario(ctx, col, case, tag, rng, transport, regime, lat, n, errors_at, report_at, noise_at, drop_at,
                 async_after=None):
    beh = Script(rng, lat, errors_at, report_at, noise_at, drop_at, transport, async_after)
    if transport == "serial":
        dev = MarlinPTY(beh).start()
        w = SerialWriter(dev.port, 115200)
    else:
        dev = GrblTCP(beh).start()
        w = SocketWriter("127.0.0.1", dev.port)
    statements = make_statements(rng, n, blank_ok=(transport == "socket"))
    if any(not st.strip() for st in statements):
        col.count("scenarios_with_blank_statements")
    col.count("statements_with_brackets_or_semicolon", sum(1 for st in statements if b"(" in st or b";" in st))
    col.count("statements_with_inner_blank_runs_or_tabs",
              sum(1 for st in statements if b"  " in st.strip() or b"\t" in st.strip()))
    client = []          # (i, t_call, t_ret, outcome, exception repr, X reading after return)
    state = {"disconnect_t": None, "hung": False}
    info = {"tag": tag, "transport": transport, "regime": regime, "latency": lat, "n": n,
            "errors_at": {k: v.decode() for k, v in errors_at.items()}, "reports_at": sorted(report_at),
            "noise_at": sorted(noise_at), "drop_at": drop_at,
            "async_error_after": {k: v.decode() for k, v in (async_after or {}).items()}}
    pert = sched.Perturber(sched.printrun_functions(), seed=rng.randrange(1 << 30), p_yield=0.25, p_sleep=0.01)
    use_cm = rng.random() < 0.3
    short_timeout = None
    if LAT[lat][0] >= 0.02 and rng.random() < 0.5:
        short_timeout = LAT[lat][0] / rng.choice([2, 10])     # shorter than every acknowledgement latency
        info["set_timeout"] = short_timeout
        col.count("scenarios_with_timeout_shorter_than_latency")

    def body():
        try:
            if use_cm:
                w.__enter__()       # `with SerialWriter(...) as w:` form
            else:
                w.connect()
        except Exception as e:
            state["connect_error"] = repr(e)
            return
        if regime == "quiesced":
            t0 = time.monotonic()
            while dev.quiet_for() < 0.4 and time.monotonic() - t0 < 10:
                time.sleep(0.01)
        if short_timeout is not None:
            # the public timeout option (connection timeout) must not bound the acknowledgement wait
            w.set_timeout(short_timeout)
        state["t_first"] = time.monotonic_ns()
        for i, st in enumerate(statements):
            t_call = time.monotonic_ns()
            try:
                w.write(st)
                out, err = "ok", None
            except DeviceError as e:
                out, err = "DeviceError", f"{type(e).__name__}: {e}"
            except Exception as e:
                out, err = "other", repr(e)
            t_ret = time.monotonic_ns()
            client.append((i, t_call, t_ret, out, err, w.get_parameter("X"), w.get_parameter("C")))
            if async_after and i in async_after:
                time.sleep(0.3)     # the caller is idle while the device reports the asynchronous error
            if drop_at is not None and out != "ok":
                break
        try:
            if use_cm:
                w.__exit__(None, None, None)
            else:
                w.disconnect(True)
        except Exception as e:
            state["disconnect_error"] = repr(e)
        state["disconnect_t"] = time.monotonic_ns()

    t = threading.Thread(target=body, name="client", daemon=True)
    budget = 15 + n * (LAT[lat][1] * 3 + 0.3)
    with pert:
        t.start()
        t.join(budget)
    if t.is_alive():
        state["hung"] = True
    try:
        if not t.is_alive():
            pass
        else:
            # unblock the abandoned client so its threads can die
            w._writer_delegate._ack_event.set()
    except Exception:
        pass
    time.sleep(0.02)
    dev.close()
    if t.is_alive():
        try:
            d = w._writer_delegate._device
            if d is not None:
                d.stop_read_thread = True
                d.stop_send_thread = True
        except Exception:
            pass
    col.count("yields_injected", pert.injected)
    col.count("line_events_seen", pert.line_events)
    col.count("context_switch_observations", sum(pert.switch_pairs.values()))
    return analyse(ctx, col, case, info, dev, beh, statements, client, state)


def analyse(ctx, col, case, info, dev, beh, statements, client, state):
    col.count("scenarios")
    col.evaluations += 1
    events = list(dev.events)
    acks = {}            # index -> (t, reply)
    hs_acks = []         # handshake acks
    for tns, kind, payload in events:
        if kind == "ack":
            idx, reply = payload
            if idx is None:
                hs_acks.append(tns)
            else:
                acks[idx] = (tns, reply)
    sent = [s.decode("utf-8").strip().encode("utf-8") for s in statements]
    witness = {**info, "hung": state["hung"],
               "client": [(i, out, err, x) for i, _, _, out, err, x, _ in client],
               "device_accepted": [a.decode("latin1") for a in dev.accepted],
               "statements": [s.decode("latin1") for s in sent],
               "acks": {i: r.decode("latin1") for i, (_, r) in acks.items()}}

    def fail(kind, mech=None, **d):
        col.violation(kind, ctx.case_ref(case), {**witness, **d}, mechanism=mech)
        return False

    if "connect_error" in state:
        col.inconclusive_case(f"{info['tag']}: connect failed {state['connect_error']}")
        return None
    sig = reply_signature(events)
    err_class = "none" if not info["errors_at"] else ("first" if 0 in info["errors_at"] else
                                                       "last" if (info["n"] - 1) in info["errors_at"] else "middle")
    col.key(info["transport"], info["latency"], err_class, info["regime"],
            "drop" if info["drop_at"] is not None else sig)
    # 1. order / exactly once / unmodified ------------------------------------------------
    attempted = len(client) + (1 if state["hung"] else 0)
    got = dev.accepted
    if got != sent[:len(got)] or len(got) > attempted:
        return fail("device-received-sequence-differs-from-written-sequence",
                    mech=None)
    if info["drop_at"] is None and not state["hung"] and len(got) != len(sent):
        return fail("statement-never-reached-the-device", missing=len(sent) - len(got))
    if state["hung"]:
        if info["drop_at"] is not None:
            col.count("blocked_after_connection_loss")
            col.note("write() blocks forever after a connection loss (no timeout on the acknowledgement wait)")
        else:
            idle = dev.quiet_for()
            pending = [i for i in range(len(sent)) if i not in acks]
            if idle > 2.0:
                return fail("write-never-returned-although-the-device-answered-everything",
                            device_idle_s=round(idle, 2), unanswered=pending,
                            mech="c16:blocked:" + ("non-ascii" if any(b > 127 for s in sent for b in s) else "ascii"))
            col.inconclusive_case(f"{info['tag']}: wall-clock watchdog with the device still busy")
            return None
    # 2.-4. per write -----------------------------------------------------------------------
    strict_fail, weak_fail, late_errors, reading_fail = [], [], [], []
    # an error line sent while the caller was idle after statement k must be raised by write(k+1)
    async_after = {int(k) for k in info.get("async_error_after", {})}
    all_replies = sorted([t for t, k, _ in events if k in ("ack", "tx-extra")])
    # ... unless write(k) had not returned yet when the device sent the line: then write(k) itself may
    # raise it (the statement only says that the error is raised to the caller)
    t_async = {payload[0]: t for t, k, payload in events if k == "async-error"}
    raised_early = set()
    for i, t_call, t_ret, out, err, xread, tread in client:
        col.count("writes_checked")
        ack = acks.get(i)
        if info["drop_at"] is not None and i >= info["drop_at"]:
            if out == "ok" and ack is None:
                return fail("write-returned-normally-without-any-acknowledgement-after-connection-loss", index=i)
            continue
        is_err = i in info["errors_at"] or ((i - 1) in async_after and (i - 1) not in raised_early)
        if (i - 1) in async_after:
            col.count("async_errors_expected")
        if is_err:
            col.count("error_replies")
        if out == "other":
            return fail("write-raised-an-unexpected-exception", index=i, error=err)
        if out == "ok":
            if ack is None or t_ret < ack[0]:
                strict_fail.append(i)
            else:
                col.count("strict_sync_checks")
            if is_err:
                late_errors.append(i)
        else:  # DeviceError
            if not is_err and i in async_after and t_async.get(i) is not None and t_async[i] <= t_ret:
                raised_early.add(i)
                col.count("async_errors_raised_by_the_write_still_returning")
            elif not is_err:
                late_errors.append(i)
            else:
                col.count("errors_raised_correctly")
        # 3. reading requested by the statement is available on return
        if i in beh.reported and out == "ok" and i not in strict_fail:
            col.count("readings_checked")
            if xread != beh.reported[i]:
                reading_fail.append(i)
        if i in beh.reported_on_ack and out == "ok" and i not in strict_fail:
            # the last value of the acknowledgement line (C) is stored last: it is the one a caller
            # can miss if the acknowledgement is signalled before the line is parsed
            col.count("readings_checked")
            col.count("ack_line_readings_checked")
            if tread != beh.reported_on_ack[i]:
                reading_fail.append(i)
    # weak (regime independent) safety: every return needs its own device reply.  Replies stamped up
    # to 0.5 s before the first call may still be in flight to the client (serial read poll), so they
    # count; at the k-th return at least k final replies must have been stamped.
    if client:
        horizon = client[0][1] - 500_000_000
        stamps = sorted(t for t in [a[0] for a in acks.values()] + hs_acks if t >= horizon)
        returned = 0
        for i, t_call, t_ret, out, err, *_ in client:
            if info["drop_at"] is not None and i >= info["drop_at"]:
                break
            returned += 1
            available = sum(1 for t in stamps if t <= t_ret)
            if returned > available:
                weak_fail.append(i)
    if weak_fail:
        return fail("more-writes-returned-than-replies-were-sent", indices=weak_fail,
                    mech="c16:returns-outrun-replies")
    regime = info["regime"]
    if strict_fail or late_errors or reading_fail:
        # known mechanism: in an immediate start a handshake acknowledgement (M110 / G4 P0) is still
        # outstanding when the first statement is written, so every wait is satisfied one reply early
        mech = None
        if regime == "immediate" and shifted_by_stale_ack(client, acks, hs_acks, info, strict_fail, late_errors):
            mech = "c16:immediate-start:stale-handshake-ack"
        if strict_fail:
            return fail("write-returned-before-its-statement-was-acknowledged", indices=strict_fail,
                        late_or_spurious_errors=late_errors, mech=mech)
        if late_errors:
            return fail("error-reply-not-raised-by-the-write-of-that-statement", indices=late_errors, mech=mech)
        return fail("reading-not-available-when-write-returned", indices=reading_fail,
                    readings=[(i, client[i][5], beh.reported.get(i), client[i][6], beh.reported_on_ack.get(i))
                              for i in reading_fail], mech=mech)
    # 5. disconnect(wait=True) after everything was acknowledged --------------------------------------
    if state["disconnect_t"] is not None and info["drop_at"] is None:
        last = max((t for t, _ in acks.values()), default=0)
        col.count("disconnect_checks")
        if len(acks) < len(sent) or state["disconnect_t"] < last:
            return fail("disconnect-returned-before-everything-was-acknowledged",
                        acked=len(acks), written=len(sent))
    return True


def shifted_by_stale_ack(client, acks, hs_acks, info, strict_fail, late_errors):
    """True iff the history is exactly what one extra, earlier acknowledgement explains: a handshake
    reply was sent after (or within 0.3 s before) the first write began and every write returned after
    the acknowledgement of the PREVIOUS statement."""
    if not client:
        return False
    t_first = client[0][1]
    if not any(t >= t_first - 300_000_000 for t in hs_acks):
        return False
    for i, t_call, t_ret, out, err, *_ in client:
        if i == 0:
            continue
        prev = acks.get(i - 1)
        if prev is None or t_ret < prev[0]:
            return False
    # errors must surface exactly one call late
    for i in late_errors:
        out = client[i][3] if i < len(client) else None
        if out == "ok" and i in info["errors_at"]:
            nxt = client[i + 1][3] if i + 1 < len(client) else None
            if nxt not in ("DeviceError", None):
                return False
        elif out == "DeviceError" and (i - 1) not in info["errors_at"]:
            return False
    return True


def reply_signature(events):
    s = "".join({"rx": "S", "tx-extra": "x", "ack": "A"}.get(k, "") for _, k, _ in events)
    out, prev, cnt = [], None, 0
    for ch in s:
        if ch == prev:
            cnt += 1
        else:
            if prev:
                out.append(prev + (str(cnt) if cnt > 1 else ""))
            prev, cnt = ch, 1
    if prev:
        out.append(prev + (str(cnt) if cnt > 1 else ""))
    r = "".join(out)
    return r if len(r) <= 40 else r[:19] + ".." + r[-19:]


def run_shard(ctx, col):
    logging.disable(logging.CRITICAL)
    sys.setswitchinterval(1e-6)
    P = ctx.params
    for case in ctx.cases():
        rng = ctx.rng(case)
        # (a) enumerated error positions -------------------------------------------------------
        work = []
        regimes = ["quiesced"] if ctx.tier == "quick" else ["quiesced", "immediate"]
        for transport in ("serial", "socket"):
            for pos in range(4):
                for e in ERRORS:
                    for regime in regimes:
                        work.append((transport, pos, e, regime))
        for k, (transport, pos, e, regime) in enumerate(work):
            if k % P["cases"] != case:
                continue
            lat = rng.choice(["0", "1-5ms", "20-60ms"])
            run_scenario(ctx, col, case, f"enum:{transport}:{pos}:{e.decode()}:{regime}", rng, transport, regime,
                         lat, 4, {pos: e}, {rng.randrange(4)}, set(), None)
            col.count("enumerated_error_positions")
        # (b) random scenarios ----------------------------------------------------------------------
        for j in range(P["random_scenarios"]):
            transport = rng.choice(["serial", "socket"])
            regime = rng.choice(["quiesced", "quiesced", "immediate"])
            lat = rng.choice(["0", "1-5ms", "20-60ms", "150-400ms"])
            n = rng.randint(3, 5) if lat == "150-400ms" else rng.randint(3, 12)
            errors_at = {}
            if rng.random() < 0.4:
                for _ in range(rng.randint(1, 2)):
                    errors_at[rng.randrange(n)] = rng.choice(ERRORS)
            report_at = {i for i in range(n) if rng.random() < 0.5}
            noise_at = {i for i in range(n) if rng.random() < 0.3}
            drop_at = rng.randrange(n) if rng.random() < 0.12 else None
            if drop_at is not None:
                errors_at = {}
                regime = "quiesced"     # with a stale handshake ack (known finding) a loss cannot be judged
            async_after = None
            if drop_at is None and not errors_at and rng.random() < 0.3:
                regime = "quiesced"
                async_after = {rng.randrange(n - 1): rng.choice(ERRORS)}
            run_scenario(ctx, col, case, f"random:{j}", rng, transport, regime, lat, n, errors_at,
                         report_at, noise_at, drop_at, async_after)
        if case == 0:
            col.sample({"statements": [s.decode() for s in make_statements(ctx.rng(0, "sample"), 4)],
                        "device_script": "latency / unsolicited lines / report before ack / final reply ok|error / drop"})
