"""C04 Coordinate transforms are applied faithfully to every move.

Monitor: a GCodeBuilder subclass records the builder's own (untransformed)
position at every written statement; the independent 4x4 model gives the
active matrix M; the lexer/interpreter give the emitted words and the machine
position.  Checked per emitted line (absolute: word == (M.target)_a;
relative: word == (M.target - M.origin)_a; every axis that has to change, and
every requested axis, is mentioned) and end-to-end (machine == M.position from
a sync point until the transform changes).
"""

from __future__ import annotations

import math
from fractions import Fraction

from gscrib import GCodeBuilder

from harness import gen
from harness.common import CaseTimeout
from harness.models import TModel, apply_to_model, draw_transform_op
from harness.session import Session

PROP = "C04"
LEVEL = "exploration"
TECHNIQUE = 'recording builder subclass + independent 4x4 matrix model + interpreter: per-word image check and end-to-end machine == M.position'
LEVEL_TEXT = 'Held on random transform compositions (incl. arbitrary affine matrices and transform contexts) and partial-axis moves in both modes.'
RULE = ("compositions (depth 1-6) of translate/rotate/scale (uniform, per-axis, negative)/reflect/mirror "
        "about random pivots, then partial-axis move/rapid/probe calls and tracer shapes in both distance "
        "modes, transform changed again 2-4 times per case; distinct = (transform-kind multiset, mode, "
        "requested-axes mask, coupled-axes mask)")
ASSUMPTIONS = [
    "M comes from harness.models.TModel and is cross-checked against transform.apply_transform on every change",
    "builder-side targets are observed by a recording subclass at write() time (position after _update_axes)",
    "tolerance 1/2 unit of the last place + 1e-9 * |M| * |coordinates|; relative end-to-end budget accumulates per word",
    "all axes known at start (set_axis) and re-synchronised by an absolute x,y,z move after every transform change, probe or bypass move",
]
TIERS = {
    "quick": {"shards": 16, "cases": 800, "timeout": 300},
    "thorough": {"shards": 16, "cases": 30000, "timeout": 3000},
}
FLOORS = {
    "quick": {"counts": {"tiny_displacements": 300, "words_checked": 60000, "relative_moves_right_after_context_exit": 80, "lines_checked": 30000, "end_to_end_checks": 20000,
                         "coupled_axis_lines": 5000, "relative_lines": 8000}, "keys": 300},
    "thorough": {"counts": {"words_checked": 2500000, "lines_checked": 1000000}, "keys": 600},
}
AX = "XYZ"


class RecordingBuilder(GCodeBuilder):
    """Records the builder-side position each time a statement is written."""

    def write(self, statement):
        trail = self.__dict__.setdefault("_trail", [])
        trail.append(tuple(self.position))
        super().write(statement)


def run_case(ctx, col, case):
    rng = ctx.rng(case)
    dp = rng.choice([3, 5, 8])
    s = Session(dp=dp, builder_cls=RecordingBuilder)
    g, m = s.g, s.m
    half = Fraction(1, 2 * 10 ** dp)
    model = TModel()
    kinds_used = []
    log = []
    start = tuple(rng.uniform(-40, 40) for _ in range(3))
    g.set_axis(x=start[0], y=start[1], z=start[2])
    s.drain()
    g.__dict__["_trail"] = []
    st = {"synced": False, "rel_budget": [Fraction(0)] * 3}

    def fail(kind, mech=None, **detail):
        col.violation(kind, ctx.case_ref(case),
                      {"dp": dp, "transforms": kinds_used[-8:], "matrix": [[round(v, 9) for v in row] for row in model.M.tolist()],
                       "history_tail": log[-5:], **detail}, mechanism=mech)
        return False

    def change_transform():
        for _ in range(rng.randint(1, 3)):
            name, args = draw_transform_op(rng)
            if name == "set_pivot":
                g.transform.set_pivot(args[0])
            else:
                getattr(g.transform, name)(*args)
            apply_to_model(model, name, args)
            kinds_used.append(name)
            log.append(["transform." + name, _r(args)])
        for p in ((1.0, 2.0, 3.0), (-7.0, 0.5, 11.0)):
            got, want = g.transform.apply_transform(p), model.apply(p)
            if max(abs(a - b) for a, b in zip(got, want)) > 1e-9 * max(1.0, model.norm()) * 100:
                return fail("transform-differs-from-model", point=p, got=list(got), model=list(want))
        st["synced"] = False
        return True

    def do_call(name, args, kw, requested=None, bypass=False, probe=False):
        """Execute one builder call and check every emitted line."""
        pos0 = tuple(0.0 if v is None else v for v in g.position)
        rel0 = g.distance_mode.is_relative
        trail = g.__dict__["_trail"]
        s.drain()          # lines written outside s.call (mode contexts) are not part of this call
        trail.clear()
        t0 = 0
        try:
            with ctx.watchdog(30):
                outcome, exc, new, _ = s.call(name, *args, **kw)
        except CaseTimeout:
            col.inconclusive_case(f"case {case}: watchdog in {name}")
            return False
        log.append([name, _r(args), _r(kw), outcome])
        if s.lex_errors:
            return fail("unparseable-output", errors=str(s.lex_errors[:2]))
        if outcome != "ok":
            return fail("valid-call-rejected", call=log[-1], error=repr(exc))
        positions = trail[t0:]
        if len(positions) != len(new):
            return fail("harness-desync", n_positions=len(positions), n_lines=len(new))
        before = pos0
        rel = rel0
        scale_c = max(1.0, model.norm())
        for ln, after_raw in zip(new, positions):
            code = ln.code()
            if code == "G90":
                rel = False
                continue
            if code == "G91":
                rel = True
                continue
            if code not in ("G0", "G1") and not (code or "").startswith("G38"):
                continue
            axes = m.axis_words(ln)
            if probe:
                # the builder masks probed axes; the target follows from the request
                after = list(before)
                for a, v in requested.items():
                    i = AX.index(a)
                    after[i] = before[i] + v if rel0 else v
                after = tuple(after)
            else:
                after = tuple(b if v is None else v for v, b in zip(after_raw, before))
            col.count("lines_checked")
            if rel:
                col.count("relative_lines")
            if bypass:
                # untransformed absolute coordinates
                for a, v in axes.items():
                    col.count("words_checked")
                    want = after[AX.index(a)]
                    if abs(float(v) - want) > float(half) + 1e-9 * max(1.0, abs(want)):
                        return fail("bypass-word-is-not-the-requested-coordinate", line=ln.raw, axis=a, want=want)
                before = after
                continue
            mo, mt = model.apply(before), model.apply(after)
            mag = max(1.0, max(abs(c) for c in before + after)) * scale_c
            eps = 1e-9 * mag
            coupled = 0
            for i, a in enumerate(AX):
                delta = mt[i] - mo[i]
                want = delta if rel else mt[i]
                if a in axes:
                    col.count("words_checked")
                    if abs(float(axes[a]) - want) > float(half) + eps:
                        return fail("word-is-not-the-image-of-the-request", line=ln.raw, axis=a,
                                    emitted=float(axes[a]), expected=want, relative=rel,
                                    origin=before, target=after,
                                    mech=f"c04:word:{'rel' if rel else 'abs'}")
                    if requested is not None and a not in requested:
                        coupled += 1
                else:
                    if requested is not None and a in requested:
                        return fail("requested-axis-missing", line=ln.raw, axis=a, requested=sorted(requested))
                    if abs(delta) > 10.0 ** -dp + eps:
                        return fail("axis-that-has-to-move-is-missing", line=ln.raw, axis=a,
                                    needed_change=delta, origin=before, target=after, relative=rel,
                                    mech="c04:missing-axis")
            if coupled:
                col.count("coupled_axis_lines")
            if requested is not None:
                mask = "".join(a if a in requested else "-" for a in AX)
                cmask = "".join(a if (a in axes and a not in requested) else "-" for a in AX)
                col.key("+".join(sorted(set(kinds_used))), "rel" if rel else "abs", mask, cmask)
            before = after
        return True

    def end_to_end(label):
        if not st["synced"]:
            return True
        pos = tuple(0.0 if v is None else v for v in g.position)
        want = model.apply(pos)
        mag = max(1.0, max(abs(c) for c in pos)) * max(1.0, model.norm())
        for i, a in enumerate(AX):
            if m.pos[a] is None:
                continue
            col.count("end_to_end_checks")
            tol = float(m.budget[a]) + 1e-9 * mag
            if abs(float(m.pos[a]) - want[i]) > tol:
                return fail("machine-is-not-at-transform-of-tracked-position", after=label, axis=a,
                            machine=float(m.pos[a]), expected=want[i], tracked=pos, tolerance=tol,
                            mech="c04:end-to-end")
        return True

    def sync():
        p = tuple(rng.uniform(-30, 30) for _ in range(3))
        if g.distance_mode.is_relative:
            with g.absolute_mode():
                ok = do_call("move", (), {"x": p[0], "y": p[1], "z": p[2]}, requested={"X": p[0], "Y": p[1], "Z": p[2]})
            s.drain()
        else:
            ok = do_call("move", (), {"x": p[0], "y": p[1], "z": p[2]}, requested={"X": p[0], "Y": p[1], "Z": p[2]})
        st["synced"] = True
        return ok and end_to_end("sync")

    def in_context():
        """Moves under a transform that only lives inside current_transform(): on exit the previous
        transform must be back in force for the moves that follow."""
        snap = model.context_snapshot()
        col.count("transform_contexts")
        with g.current_transform():
            if not change_transform() or not sync():
                return False
            for _ in range(rng.randint(1, 4)):
                rel = g.distance_mode.is_relative
                kw = {a: (rng.uniform(-10, 10) if rel else rng.uniform(-40, 40)) for a in "xyz" if rng.random() < 0.5}
                req = {a.upper(): v for a, v in kw.items()}
                if not do_call("move", (), kw, requested=req) or not end_to_end("move-in-context"):
                    return False
        model.context_revert(snap)
        kinds_used.append("context-exit")
        st["synced"] = False
        if g.distance_mode.is_relative and rng.random() < 0.7:
            # relative moves straight after the exit, from the very position of the last move made inside
            # the block and before any re-synchronising absolute move: each word must be the linear image
            # of the requested displacement under the transform that is back in force
            for _ in range(rng.randint(1, 2)):
                kw = {a: rng.uniform(-10, 10) for a in "xyz" if rng.random() < 0.6} or {"x": 1.5}
                col.count("relative_moves_right_after_context_exit")
                if not do_call("move", (), kw, requested={a.upper(): v for a, v in kw.items()}):
                    return False
        return sync()

    for _ in range(rng.randint(2, 4)):
        if not change_transform():
            return
        if rng.random() < 0.5:
            g.set_distance_mode(rng.choice(["absolute", "relative"]))
            s.drain()
        if not sync():
            return
        if rng.random() < 0.3 and not in_context():
            return
        for _ in range(rng.randint(4, 10)):
            r = rng.random()
            rel = g.distance_mode.is_relative
            if r < 0.6:
                name = rng.choice(["move", "move", "rapid"])
                kw = {}
                for a in "xyz":
                    if rng.random() < 0.5:
                        kw[a] = rng.uniform(-10, 10) if rel else rng.uniform(-40, 40)
                if rng.random() < 0.1:
                    # a very small displacement along one axis (1e-4.5 .. 1e-2): under a rotation or shear the
                    # coupled axes change by even less, yet far more than the output resolution at dp >= 5
                    a = rng.choice("xyz")
                    d = rng.choice([-1, 1]) * 10 ** rng.uniform(-4.5, -2.0)
                    here = {"x": g.position.x, "y": g.position.y, "z": g.position.z}[a]
                    kw = {a: d if rel else (0.0 if here is None else here) + d}
                    col.count("tiny_displacements")
                if rng.random() < 0.2:
                    kw["F"] = 1200
                req = {a.upper(): v for a, v in kw.items() if a in "xyz"}
                if not do_call(name, (), kw, requested=req):
                    return
            elif r < 0.7:
                kw = {a: (rng.uniform(-5, 5) if rel else rng.uniform(-40, 40)) for a in "xyz" if rng.random() < 0.5}
                if not kw:
                    kw = {"z": -1.0}
                req = {a.upper(): v for a, v in kw.items()}
                if not do_call("probe", (rng.choice(["towards", "away"]),), kw, requested=req, probe=True):
                    return
                # probed axes are unknown now: make everything known again and re-sync
                p = tuple(rng.uniform(-30, 30) for _ in range(3))
                g.set_axis(x=p[0], y=p[1], z=p[2])
                s.drain()
                g.__dict__["_trail"].clear()
                st["synced"] = False
                if not sync():
                    return
                continue
            elif r < 0.78:
                name = rng.choice(["move_absolute", "rapid_absolute"])
                kw = {a: rng.uniform(-40, 40) for a in "xyz" if rng.random() < 0.6}
                if not do_call(name, (), kw, bypass=True):
                    return
                st["synced"] = False
                if not sync():
                    return
                continue
            else:
                pos = tuple(0.0 if v is None else v for v in g.position)
                scale = rng.choice([4.0, 15.0])
                g.set_resolution(scale / rng.choice([5, 12]))
                name, args, kw, meta = gen.shape_request(rng, pos, rel, scale=scale)
                col.count("shape:" + meta["kind"])
                if not do_call(name, args, kw):
                    return
            if not end_to_end(log[-1][0]):
                return
    if case % 199 == 0:
        col.sample({"case": case, "dp": dp, "transforms": kinds_used, "history": log[:10],
                    "emitted": [ln.raw for ln in s.lines[:8]]})


def _r(obj):
    if isinstance(obj, dict):
        return {k: _r(v) for k, v in obj.items()}
    if hasattr(obj, "tolist"):
        return _r(obj.tolist())
    if isinstance(obj, (list, tuple)):
        return [_r(v) for v in obj]
    if callable(obj):
        return "<fn>"
    if isinstance(obj, float):
        return round(obj, 9) if math.isfinite(obj) else repr(obj)
    return obj


def run_shard(ctx, col):
    for case in ctx.cases():
        run_case(ctx, col, case)
        col.evaluations += 1
