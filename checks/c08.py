"""C08 Every emitted line is one well-formed block with faithful numbers.

Monitors
  (a) wire: every payload handed to the writer is split and lexed by the
      independent block grammar (harness.wire.Lexer): exactly one line per
      statement, ended once by the configured terminator, words = LABEL +
      plain signed decimal, at most one comment, nothing after it;
  (b) value routing: the numeric argument of each call is compared with the
      word it must appear in (exact rational arithmetic);
  (c) icontract postcondition on DefaultFormatter.number for EVERY number
      formatted anywhere (tracer vertices included).
"""

from __future__ import annotations

import math
import os
from fractions import Fraction

import numpy as np

from harness import contracts, gen
from harness.common import CaseTimeout
from harness.session import escape_le, REJECTIONS, Session
from harness.wire import LexError

PROP = "C08"
LEVEL = "exploration"
TECHNIQUE = 'independent block grammar on every payload + exact-rational value routing + icontract postcondition on DefaultFormatter.number for every number formatted'
LEVEL_TEXT = 'Held on number classes x decimal_places 0..12 x relabelling x comment styles x line endings x every emitting command.'
RULE = ("per case one formatter configuration (decimal_places 0..12, axis relabelling, comment style, "
        "line ending) and 30-40 emitting commands covering every builder command, numeric arguments from "
        "the classes {+-0, subnormal, 1 ulp around k*10^-dp, 1 ulp around rounding ties, 10^k and 10^k+-ulp "
        "up to 1e15, ints up to 2^53 (|v| <= 1e15), bools, numpy float64/float32/int64, NaN/+-inf, random}; "
        "distinct = (number class, decimal_places, entry point)")
ASSUMPTIONS = [
    "block grammar: harness.wire.Lexer (LABEL = letters, NUMBER = -?digits(.digits)?, comment per configured style)",
    "tolerance: 1/2 unit of the last decimal place + 1/2 ulp of the argument in its own type (a decimal literal identifies a binary float only up to that)",
    "the '{' comment style is excluded: str.format on its template raises for every comment (crash, recorded as an observation)",
    "axis words are compared in absolute mode without transform (relative words are differences, covered by C01)",
]
TIERS = {
    "quick": {"shards": 16, "cases": 1200, "calls": 32, "timeout": 300},
    "thorough": {"shards": 16, "cases": 100000, "calls": 40, "timeout": 3000},
}
FLOORS = {
    "quick": {"counts": {"comment_text_with_closing_symbol": 100, "payloads_lexed": 30000, "formatter_reconfigured_in_place": 150, "comment_text_with_line_breaks": 250, "routed_values_checked": 25000,
                         "number_contract_evals": 80000, "nonfinite_rejections": 1500,
                         "direct_formatter_calls": 2500}, "keys": 600},
    "thorough": {"counts": {"payloads_lexed": 1500000, "number_contract_evals": 4000000}, "keys": 1200},
}
STYLES = [";", "(", "[", "<", '"', "'", "/*", "#", "//", ";;"]
ENDINGS = ["\n", "\r\n", "os", "\r"]
LABELS = ["A", "B", "C", "U", "V", "W", "XX", "YA", "x", " z "]
NAN, INF = float("nan"), float("inf")


def number(rng, dp, nonneg=False, nonfinite_p=0.08, numpy_ok=False, limit=1e15):
    """(value, class)"""
    r = rng.random()
    if r < nonfinite_p:
        if numpy_ok and rng.random() < 0.5:
            return rng.choice([np.float32("nan"), np.float32("inf"), np.float16("-inf"), np.float64("nan")]), "nonfinite:np"
        return rng.choice([NAN, INF, -INF]), "nonfinite"
    unit = 10.0 ** -dp
    cls = rng.choice(["zero", "subnormal", "grid", "tie", "pow10", "int", "random", "small", "big", "np", "bool"])
    if cls == "bool":
        v = rng.choice([True, True, False])     # a flag used as a number (bool is an int): words "1" / "0"
    elif cls == "zero":
        v = rng.choice([0.0, -0.0, 0])
    elif cls == "subnormal":
        v = rng.choice([5e-324, -5e-324, 2.2e-308, 1e-310])
    elif cls == "grid":
        k = rng.randint(-10 ** 6, 10 ** 6)
        v = k * unit
        v = rng.choice([v, math.nextafter(v, INF), math.nextafter(v, -INF)])
    elif cls == "tie":
        k = rng.randint(-10 ** 5, 10 ** 5)
        v = (k + 0.5) * unit
        v = rng.choice([v, math.nextafter(v, INF), math.nextafter(v, -INF)])
    elif cls == "pow10":
        k = rng.randint(-dp - 2, 15)
        v = 10.0 ** k
        v = rng.choice([v, math.nextafter(v, INF), math.nextafter(v, -INF)]) * rng.choice([1, -1])
    elif cls == "int":
        v = rng.choice([rng.randint(-10 ** 15, 10 ** 15), rng.randint(-1000, 1000), 10 ** 15, 2 ** 49 + 1])
    elif cls == "small":
        v = rng.uniform(-1, 1) * unit * rng.choice([0.1, 0.49, 0.51, 1, 3])
    elif cls == "big":
        v = rng.uniform(-1, 1) * 10 ** rng.randint(6, 15)
    elif cls == "np" and numpy_ok:
        base = rng.uniform(-1, 1) * 10.0 ** rng.randint(-9, 4)
        v = rng.choice([np.float64(base), np.float32(base), np.float16(base), np.longdouble(base),
                        np.int64(int(base)), np.int32(int(base) % 1000), np.float32(0.1), np.float64(2.675),
                        np.float32(base), np.float16(base),
                        # extremes of the fixed-width integer types (abs() of the minimum overflows)
                        rng.choice([np.int8(-128), np.int16(-32768), np.int32(-2 ** 31), np.int8(127),
                                    np.uint8(255), np.int16(32767), np.uint16(65535), np.int32(2 ** 31 - 1)])])
        if isinstance(v, np.floating) and not np.isfinite(v):
            v = np.float32(1.5)
        cls = "np:" + type(v).__name__
    else:
        v = rng.uniform(-1000, 1000)
        cls = "random"
    if nonneg and not isinstance(v, np.generic):
        v = abs(v)
    if isinstance(v, float) and abs(v) > limit:
        v = math.copysign(limit, v)
    return v, cls


def tolerance(dp, v):
    return Fraction(1, 2 * 10 ** dp) + contracts.half_ulp(v)


def run_case(ctx, col, case):
    rng = ctx.rng(case)
    contracts.install_number_contract()
    dp = rng.randint(0, 12)
    style = rng.choice(STYLES)
    le_cfg = rng.choice(ENDINGS)
    le = os.linesep if le_cfg == "os" else le_cfg
    labels = {}
    if rng.random() < 0.4:
        for axis, lab in zip(rng.sample(["X", "Y", "Z"], rng.randint(1, 3)), rng.sample(LABELS, 3)):
            labels[axis] = lab
    cfg = {"dp": dp, "comment_symbols": style, "line_ending": le_cfg, "labels": labels}
    try:
        s = Session(dp=dp, comment=style, le=le, labels=labels, interpret=False)
    except REJECTIONS as e:
        col.violation("valid-configuration-rejected", ctx.case_ref(case), {"config": cfg, "error": repr(e)})
        return
    if le_cfg == "os":
        # 'os' goes through the dedicated branch of set_line_endings
        s.g.format.set_line_endings("os")
    g = s.g
    g.set_axis(x=0, y=0, z=0)
    s.drain()
    lab = s.labels
    CURRENT["closing"] = s.lexer.closing

    def fail(kind, mech=None, **detail):
        col.violation(kind, ctx.case_ref(case), {"config": cfg, **detail}, mechanism=mech)
        return False

    def lex_new(entry, call_repr):
        """(a) wire monitor over the payloads of the last call."""
        payloads = s.rec.payloads[s.consumed:]
        s.consumed = len(s.rec.payloads)
        lines = []
        for p in payloads:
            col.count("payloads_lexed")
            try:
                parts = s.lexer.split_payload(p)
                if len(parts) != 1:
                    raise LexError(f"{len(parts)} lines in one statement")
                if parts[0] == "":
                    raise LexError("empty line (terminator written twice)")
                ln = s.lexer.parse_line(parts[0])
            except LexError as e:
                fail("malformed-block", payload=p.decode("utf-8", "replace"), error=str(e),
                     entry=entry, call=call_repr, mech=f"c08:malformed:{entry}")
                return None
            lines.append(ln)
            col.count("tokens_lexed", len(ln.words))
        return lines

    def emit(entry, fn, expect, valid=True, vals=()):
        """Run one emitting call. expect = [(label, value)] routed values."""
        call_repr = [entry, [_r(v) for v, _ in vals]]
        nonfinite = any(isinstance(v, (float, np.floating)) and not math.isfinite(v) for v, _ in vals)
        if lex_new("helper", call_repr) is None:     # output of preparatory calls
            return False
        try:
            with ctx.watchdog(20):
                fn()
            outcome = "ok"
            exc = None
        except REJECTIONS as e:
            outcome, exc = "rejected", e
        except contracts.ContractBroken as e:
            fail("number-contract", witness=e.args[1], entry=entry, call=call_repr, mech="c08:number-contract")
            return False
        lines = lex_new(entry, call_repr)
        if lines is None:
            return False
        for v, cls in vals:
            col.key(cls, dp, entry)
        if nonfinite:
            if outcome == "ok" or lines:
                fail("non-finite-value-not-rejected", entry=entry, call=call_repr,
                     emitted=[ln.raw for ln in lines], mech=f"c08:nonfinite:{entry}")
                return False
            if not isinstance(exc, ValueError):
                fail("non-finite-value-raised-wrong-error", entry=entry, error=repr(exc))
                return False
            col.count("nonfinite_rejections")
            return True
        if outcome == "rejected":
            if valid:
                fail("valid-call-rejected", entry=entry, call=call_repr, error=repr(exc))
                return False
            return True
        for label, v in expect:
            col.count("routed_values_checked")
            words = [w for ln in lines for w in ln.words if w.label == label]
            if not words:
                fail("value-not-emitted", entry=entry, call=call_repr, label=label,
                     emitted=[ln.raw for ln in lines])
                return False
            tol = tolerance(dp, v)
            if not any(abs(w.value - contracts.exact(v)) <= tol for w in words):
                fail("word-not-within-half-unit-of-request", entry=entry, label=label,
                     requested=_r(v), type=type(v).__name__, emitted=[repr(w) for w in words],
                     mech=f"c08:unfaithful:{entry}")
                return False
        return True

    # four histories in ten re-configure the formatter in place (g.format is the documented accessor)
    # somewhere in mid-history: line ending and decimal places change, and the very same statements
    # are issued before and after the change -- "the configured line ending" and "the last configured
    # decimal place" are the ones in force when a line is written
    calls = ctx.params["calls"]
    reconf_at = rng.randrange(1, calls) if rng.random() < 0.4 else None

    def fixed_statements():
        g.move(x=1.25, y=-3.5, F=1200)
        g.write("G4 P1")
        g.comment("mark")

    for i in range(calls):
        if i == reconf_at:
            if not emit("fixed-statements", fixed_statements, [(lab["X"], 1.25)], True, []):
                return
            new_le_cfg = rng.choice(ENDINGS)
            new_dp = rng.randint(0, 12)
            g.format.set_line_endings(new_le_cfg if new_le_cfg == "os" else escape_le(new_le_cfg))
            g.format.set_decimal_places(new_dp)
            s.lexer.line_ending = os.linesep if new_le_cfg == "os" else new_le_cfg
            dp = new_dp
            cfg["reconfigured_to"] = {"dp": new_dp, "line_ending": new_le_cfg}
            col.count("formatter_reconfigured_in_place")
            if not emit("fixed-statements", fixed_statements, [(lab["X"], 1.25)], True, []):
                return
        if not one_call(rng, g, dp, lab, emit, col):
            return
    if case % 397 == 0:
        col.sample({"case": case, "config": cfg,
                    "emitted": [p.decode("utf-8", "replace") for p in s.rec.payloads[:10]]})


CURRENT = {}


def one_call(rng, g, dp, lab, emit, col):
    N = lambda **k: number(rng, dp, **k)
    if rng.random() < 0.03:
        # relabel an axis in mid-history through the public rename_axis(); the lexer follows
        axis = rng.choice(["X", "Y", "Z"])
        new = rng.choice([l for l in ("A", "B", "C", "U", "V", "W", "XX", "YA") if l not in lab.values()] or ["QQ"])
        g.rename_axis(axis.lower(), new)
        lab[axis] = new
        col.count("rename_axis_calls")
        return True
    kind = rng.choice(["move", "move", "rapid", "bypass", "set_axis", "auto_home", "probe", "feed", "power",
                       "tool_on", "power_on", "temp", "halt", "sleep", "fan", "tool_change", "modes",
                       "comment", "formatter", "formatter", "shape"])
    if kind in ("move", "rapid", "bypass", "set_axis", "auto_home", "probe"):
        name = {"move": "move", "rapid": "rapid", "bypass": rng.choice(["move_absolute", "rapid_absolute"]),
                "set_axis": "set_axis", "auto_home": "auto_home", "probe": "probe"}[kind]
        kw, expect, vals = {}, [], []
        for a in "xyz":
            if rng.random() < 0.5:
                v, cls = N()
                kw[a] = v
                vals.append((v, cls))
                expect.append((lab[a.upper()], v))
        valid = True
        if rng.random() < 0.4 and kind not in ("auto_home", "set_axis"):
            v, cls = N(nonneg=True)
            kw["F"] = v
            vals.append((v, cls)); expect.append(("F", v))
        if rng.random() < 0.3:
            key = rng.choice(["E", "e", "P", "Q"])
            v, cls = N(numpy_ok=rng.random() < 0.5)
            kw[key] = v
            vals.append((v, cls)); expect.append((key.upper(), v))
        args = (rng.choice(["towards", "away"]),) if kind == "probe" else ()
        if rng.random() < 0.25:
            # a user comment on the command (moves and the table-driven G92 / G28 / G38.x alike)
            kw["comment"] = rng.choice(["work zero", "touch plate", "home Z", "pass 2 of 3", "x=1.5"])
        ok = emit(name, lambda: getattr(g, name)(*args, **kw), expect, valid, vals)
        if kind == "probe" and ok:
            g.set_axis(x=0, y=0, z=0)
        return ok
    if kind == "feed":
        v, cls = N(nonneg=True)
        return emit("set_feed_rate", lambda: g.set_feed_rate(v), [("F", v)], True, [(v, cls)])
    if kind == "power":
        v, cls = N(nonneg=True)
        return emit("set_tool_power", lambda: g.set_tool_power(v), [("S", v)], True, [(v, cls)])
    if kind in ("tool_on", "power_on"):
        if g.state.is_tool_active:
            g.tool_off()
        v, cls = N(nonneg=True)
        mode = rng.choice(["cw", "ccw"]) if kind == "tool_on" else rng.choice(["constant", "dynamic"])
        return emit(kind, lambda: getattr(g, kind)(mode, v), [("S", v)], True, [(v, cls)])
    if kind == "temp":
        which = rng.choice(["set_bed_temperature", "set_hotend_temperature", "set_chamber_temperature"])
        v, cls = N()
        return emit(which, lambda: getattr(g, which)(v), [("S", v)], True, [(v, cls)])
    if kind == "halt":
        if g.state.is_tool_active:
            g.tool_off()
        if g.state.is_coolant_active:
            g.coolant_off()
        mode = rng.choice(["wait-for-bed", "wait-for-hotend", "wait-for-chamber", "pause", "wait-for-motion"])
        key = rng.choice(["S", "R", "P"])
        v, cls = N()
        return emit("halt", lambda: g.halt(mode, **{key: v}), [(key, v)], True, [(v, cls)])
    if kind == "sleep":
        v, cls = N(nonneg=True)
        return emit("sleep", lambda: g.sleep(v), [("P", v)], True, [(v, cls)])
    if kind == "fan":
        v = rng.choice([0, 1, 127.5, 255, 254.99999, rng.uniform(0, 255)])
        n = rng.randint(0, 3)
        return emit("set_fan_speed", lambda: g.set_fan_speed(v, n), [("S", v), ("P", n)], True, [(v, "fan")])
    if kind == "tool_change":
        if g.state.is_tool_active:
            g.tool_off()
        if g.state.is_coolant_active:
            g.coolant_off()
        n = rng.choice([1, 9, 10, 99, 100, 1234, 65535, rng.randint(1, 10 ** 6)])
        return emit("tool_change", lambda: g.tool_change(rng.choice(["manual", "automatic"]), n),
                    [("T", n)], True, [(n, "toolnum")])
    if kind == "modes":
        name, arg = rng.choice([("set_distance_mode", "absolute"), ("set_extrusion_mode", "relative"),
                                ("set_extrusion_mode", "absolute"), ("set_feed_mode", "units/rev"),
                                ("set_feed_mode", "1/time"), ("set_length_units", "in"),
                                ("set_length_units", "mm"), ("set_plane", "zx"), ("set_plane", "xy"),
                                ("query", "position"), ("query", "temperature"), ("coolant_on", "flood"),
                                ("coolant_off", None), ("tool_off", None), ("power_off", None),
                                ("emergency_halt", "door open"), ("pause", True), ("pause", False),
                                ("stop", True), ("stop", False), ("wait", None)])
        if name in ("pause", "stop", "wait"):
            if g.state.is_tool_active:
                g.tool_off()
            if g.state.is_coolant_active:
                g.coolant_off()
        if name == "coolant_on" and g.state.is_coolant_active:
            name, arg = "coolant_off", None
        fn = (lambda: getattr(g, name)(arg)) if arg is not None else (lambda: getattr(g, name)())
        return emit(name, fn, [], True, [])
    if kind == "comment":
        which = rng.choice(["comment", "annotate", "move-comment"])
        # also text with line breaks of its own (LF, CR, CRLF -- whatever the configured ending is):
        # the call must still produce ONE block terminated once
        text = rng.choice(["layer 3", "tool change", "speed 1e5", "a-b", "x=1.5", "retract\nnext", "a\rb",
                           "first\r\nsecond third", "tail break\n"])
        if "\n" in text or "\r" in text:
            col.count("comment_text_with_line_breaks")
        closing = CURRENT.get("closing")
        if closing and rng.random() < 0.3:
            # the closing symbol of the configured style inside the text, plain and nested in itself
            # (deleting the inner one re-creates it): still at most one comment per block
            k = rng.randint(0, len(closing))
            text = rng.choice([f"a {closing} b", f"a {closing[:k]}{closing}{closing[k:]} b", f"{closing}{closing} x"])
            col.count("comment_text_with_closing_symbol")
        if which == "comment":
            return emit("comment", lambda: g.comment(text, 7, 2.5), [], True, [])
        if which == "annotate":
            return emit("annotate", lambda: g.annotate("key_1", text), [], True, [])
        v, cls = N()
        return emit("move+comment", lambda: g.move(x=v, comment=text), [(lab["X"], v)], True, [(v, cls)])
    if kind == "formatter":
        # numpy scalars and plain numbers straight into the public formatter
        f = g.format
        v, cls = number(rng, dp, numpy_ok=True)
        col.count("direct_formatter_calls")
        which = rng.choice(["number", "parameters", "command"])

        def direct():
            if which == "number":
                text = f.number(v)
                g.write("Q" + text)
            elif which == "parameters":
                g.write(f.parameters({"x": v, "q": v}))
            else:
                g.write(f.command("G1", {"Y": v, "Q": v}, "note"))
        label = {"number": "Q", "parameters": "Q", "command": "Q"}[which]
        return emit("format." + which, direct, [(label, v)], True, [(v, cls)])
    # shape: only the contract and the grammar observe it
    scale = rng.choice([3.0, 30.0])
    g.set_resolution(scale / rng.choice([4, 9]))
    o = tuple(0.0 if c is None else c for c in g.position)
    if not all(math.isfinite(c) and abs(c) < 1e9 for c in o):
        g.set_axis(x=0, y=0, z=0)
        o = (0.0, 0.0, 0.0)
    name, args, kw, meta = gen.shape_request(rng, o, g.distance_mode.is_relative, scale=scale,
                                             kinds=["arc", "circle", "spline", "helix", "polyline"])
    # a rejection is acceptable here (far from the origin the equal-radius test of arcs can fail in
    # floating point): shapes only feed the number contract and the block grammar
    return emit(name, lambda: getattr(g.trace, name.split(".")[1])(*args, **kw), [], False, [])


def _r(v):
    if isinstance(v, np.generic):
        return f"{type(v).__name__}({float(v)!r})" if isinstance(v, np.floating) else f"{type(v).__name__}({int(v)})"
    if isinstance(v, float) and not math.isfinite(v):
        return repr(v)
    if isinstance(v, float):
        return v.hex() + " = " + repr(v)
    return v


def run_shard(ctx, col):
    for case in ctx.cases():
        n0 = contracts.EVALS["formatter.number"]
        try:
            run_case(ctx, col, case)
        except CaseTimeout:
            col.inconclusive_case(f"case {case}: watchdog")
        col.count("number_contract_evals", contracts.EVALS["formatter.number"] - n0)
        col.evaluations += 1
