"""C18 Device reports are parsed into the readings the caller asks for.

Monitor: the generator renders report lines from values it knows (an
independent "parser" by construction), delivers them through the receive
callback that PrintrunWriter installs on its printcore, and compares
get_parameter() with the expected readings after every report -- including
that letters a report does not mention keep their earlier reading.
"""

from __future__ import annotations

from gscrib.writers import SerialWriter, SocketWriter

PROP = "C18"
LEVEL = "exploration"
TECHNIQUE = 'generator-side expected readings vs get_parameter after every report delivered through the installed receive callback'
LEVEL_TEXT = 'Held on Marlin/Grbl report families with random signed decimals, field orders, framing and sequences.'
RULE = ("sequences of 3-12 reports per case drawn from: Marlin M114 position reports (with Count block), "
        "Marlin temperature reports (with/without leading 'ok', with '/target', '@' fields), Grbl status "
        "reports (MPos or WPos, FS or F, fields shuffled, extra Bf/Ln/Pn/Ov/WCO fields), Grbl [PRB:...] "
        "probe reports; a quarter of the reports repeat one of the last three distinct reports of the same "
        "history byte for byte; signed decimals with 0-4 fraction digits incl. -0.00 and large values; lookup in "
        "either case; distinct = (family, field order, leading ok, #fraction digits)")
ASSUMPTIONS = [
    "reports are delivered through printcore.recvcb as installed by PrintrunWriter._create_device (the same path the read thread uses)",
    "expected reading = first occurrence of the letter in the report, as rendered by the generator",
]
TIERS = {
    "quick": {"shards": 16, "cases": 3200, "timeout": 300},
    "thorough": {"shards": 16, "cases": 3000000, "timeout": 3000},
}
FLOORS = {
    "quick": {"counts": {"reports_delivered": 15000, "readings_compared": 120000,
                         "reports_with_leading_ok": 2000, "unmentioned_letters_checked": 50000,
                         "reports_repeated_verbatim": 2000}, "keys": 200},
    "thorough": {"counts": {"reports_delivered": 1000000}, "keys": 300},
}
LETTERS = ["X", "Y", "Z", "E", "T", "B", "F", "S", "A", "C"]


def dec(rng):
    digits = rng.randint(0, 4)
    kind = rng.random()
    if kind < 0.1:
        v = 0.0
        text = rng.choice(["0", "-0", "0.00", "-0.00"]) if digits else rng.choice(["0", "-0"])
        return text, float(text), digits
    if kind < 0.2:
        mag = rng.uniform(1e4, 1e7)
    else:
        mag = rng.uniform(0, 400)
    v = round(mag * rng.choice([1, 1, -1]), digits)
    text = f"{v:.{digits}f}"
    return text, float(text), digits


def marlin_position(rng):
    vals, exp, parts = {}, {}, []
    digits = 0
    for a in "XYZE":
        t, v, digits = dec(rng)
        parts.append(f"{a}:{t}")
        exp[a] = v
    count = " ".join(f"{a}:{rng.randint(-99999, 99999)}" for a in "XYZ")
    sep = rng.choice([" ", " "])
    line = sep.join(parts) + " Count " + count
    lead = rng.random() < 0.3
    if lead:
        line = "ok " + line
    return line, exp, ("marlin-pos", "XYZE", lead, digits)


def marlin_temperature(rng):
    exp, parts = {}, []
    order = rng.choice([["T", "B"], ["B", "T"], ["T"], ["T", "B", "C"]])
    digits = 0
    for k in order:
        t, v, digits = dec(rng)
        tt, _, _ = dec(rng)
        parts.append(f"{k}:{t} /{tt}")
        exp[k] = v
    if rng.random() < 0.7:
        parts.append(f"@:{rng.randint(0, 127)}")
        parts.append(f"B@:{rng.randint(0, 127)}")
    if rng.random() < 0.4:
        # per-tool fields of a multi-extruder report: keys "T0"/"T1" are not the letter T, wherever they
        # stand in the line and whether or not a plain "T:" field is present
        multi = f"T0:{dec(rng)[0]} /0.00 T1:{dec(rng)[0]} /0.00"
        where = rng.choice(["end", "end", "front", "instead-of-T"])
        if where == "end":
            parts.append(multi)
        elif where == "front":
            parts.insert(0, multi)
        else:
            parts = [p for p in parts if not p.startswith("T:")] + [multi]
            exp.pop("T", None)
            order = [k for k in order if k != "T"] + ["t"]
            if not exp:
                bt, bv, _ = dec(rng)
                parts.insert(0, f"B:{bt} /0.00")
                exp["B"] = bv
    line = " ".join(parts)
    lead = rng.random() < 0.6
    if lead:
        line = rng.choice(["ok ", "ok ", "OK "]) + line
    return line, exp, ("marlin-temp", "".join(order), lead, digits)


def grbl_status(rng):
    exp = {}
    fields = []
    pos_key = rng.choice(["MPos", "WPos"])
    naxes = rng.choice([3, 3, 4])
    coords, digits = [], 0
    for a in "XYZA"[:naxes]:
        t, v, digits = dec(rng)
        coords.append(t)
        exp[a] = v
    fields.append(f"{pos_key}:{','.join(coords)}")
    if rng.random() < 0.7:
        f, fv, _ = dec(rng)
        sp, sv, _ = dec(rng)
        fields.append(f"FS:{f},{sp}")
        exp["F"], exp["S"] = fv, sv
    elif rng.random() < 0.5:
        f, fv, _ = dec(rng)
        fields.append(f"F:{f}")
        exp["F"] = fv
    extras = [f"Bf:{rng.randint(0, 15)},{rng.randint(0, 128)}", f"Ln:{rng.randint(0, 99999)}",
              "Pn:XYZ", "Ov:100,100,100", f"WCO:{dec(rng)[0]},{dec(rng)[0]},{dec(rng)[0]}"]
    for e in extras:
        if rng.random() < 0.4:
            fields.append(e)
    rng.shuffle(fields)
    state = rng.choice(["Idle", "Run", "Hold:0", "Jog", "Alarm", "Door:1"])
    line = "<" + "|".join([state] + fields) + ">"
    order = "".join(f.split(":")[0][0] for f in fields)
    return line, exp, ("grbl-status", pos_key + order, False, digits)


def grbl_probe(rng):
    exp, coords, digits = {}, [], 0
    for a in "XYZ":
        t, v, digits = dec(rng)
        coords.append(t)
        exp[a] = v
    line = f"[PRB:{','.join(coords)}:{rng.choice([0, 1])}]"
    return line, exp, ("grbl-prb", "XYZ", False, digits)


FAMILIES = [marlin_position, marlin_temperature, grbl_status, grbl_probe]


def run_case(ctx, col, case):
    rng = ctx.rng(case)
    w = SerialWriter("/dev/ttyVERIF", 115200) if rng.random() < 0.5 else SocketWriter("localhost", 8000)
    delegate = w._writer_delegate
    device = delegate._create_device()          # printcore with recvcb/errorcb installed, not connected
    expected = {}
    log = []
    seen = []
    for _ in range(rng.randint(3, 12)):
        if seen and rng.random() < 0.25:
            # an idle machine answers every poll with the very same report: an earlier report of this
            # history arrives again byte for byte (other reports may have come in between)
            line, exp, key = rng.choice(seen[-3:])
            col.count("reports_repeated_verbatim")
        else:
            line, exp, key = rng.choice(FAMILIES)(rng)
            seen.append((line, exp, key))
        delegate._ack_event.clear()
        # line framing as it reaches the callback: terminators, and now and then leading blanks or the
        # stray CR of a device that ends its lines with LF CR
        lead = rng.choice(["", "", "", " ", "\r", "\t", "  "])
        device.recvcb(lead + line + rng.choice(["\n", "\r\n", "", " \n"]))
        if lead:
            col.count("reports_with_leading_whitespace")
        expected.update(exp)
        log.append(line)
        col.count("reports_delivered")
        col.key(*key)
        if key[2]:
            col.count("reports_with_leading_ok")
            if not delegate._ack_event.is_set():
                col.violation("ok-report-not-acknowledged", ctx.case_ref(case), {"report": line})
                return
        if delegate._device_error is not None:
            col.violation("report-raised-device-error", ctx.case_ref(case),
                          {"report": line, "error": repr(delegate._device_error)})
            return
        for letter in LETTERS:
            name = letter if rng.random() < 0.5 else letter.lower()
            got = w.get_parameter(name)
            want = expected.get(letter)
            col.count("readings_compared")
            if letter not in exp:
                col.count("unmentioned_letters_checked")
            if got != want and not (got is not None and want is not None and float(got) == float(want)):
                kind = "reading-differs-from-report" if letter in exp else "unmentioned-reading-changed"
                col.violation(kind, ctx.case_ref(case),
                              {"report": line, "letter": letter, "get_parameter": got, "expected": want,
                               "family": key[0], "leading_ok": key[2], "earlier_reports": log[-4:-1]},
                              mechanism=f"c18:{key[0]}:{'ok' if key[2] else 'plain'}:{kind}")
                return
    if case % 797 == 0:
        col.sample({"case": case, "reports": log[:6],
                    "readings": {k: w.get_parameter(k) for k in LETTERS}})


def run_shard(ctx, col):
    for case in ctx.cases():
        run_case(ctx, col, case)
        col.evaluations += 1
