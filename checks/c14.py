"""C14 Every writer receives every line, once, in order, byte for byte.

Monitor: a conservation / exactly-once checker.  A reference recording writer
(registered first, never removed) defines the payload sequence; a harness
model tracks which writers are registered at each write.  After flush() and
teardown() the bytes each writer actually holds (files are read back from
disk) must equal the concatenation of the payloads written while it was
registered; teardown must disconnect every writer, empty the writer list and
leave no descriptor open on path-based files.
"""

from __future__ import annotations

import io
import os
import shutil
import sys
import tempfile

from gscrib import GCodeBuilder
from gscrib.writers import ConsoleWriter, FileWriter

from harness.wire import RecordingWriter

PROP = "C14"
LEVEL = "exploration"
TECHNIQUE = 'conservation / exactly-once checker over per-writer byte streams (files read back from disk) against a reference recording writer + independent byte expectation (statement + line ending in force) for statements written as text'
LEVEL_TEXT = 'Held on random add/remove/write/flush/teardown histories over thirteen writer kinds.'
RULE = ("histories (25-45 events) of add_writer (incl. duplicates and re-adds) / remove_writer / emitting "
        "calls (moves, comments with non-ASCII text, tool and mode commands) / flush / teardown over mixes "
        "of path-based FileWriter, BytesIO, StringIO, text streams that claim to be terminals, real binary and utf-8/latin-1/utf-16 text file objects, ConsoleWriter "
        "(captured binary stdout/stderr buffer, and text-only stdout/stderr without .buffer) and custom writers, line endings LF and CRLF; distinct = (writer-kind "
        "multiset, event kind)")
ASSUMPTIONS = [
    "payload sequence = what a custom recording writer registered first receives (one payload per statement)",
    "caller-owned streams are compared after flush() (which flushes them) or after the owner closes them; teardown is not required to flush objects it does not own",
    "a path-based FileWriter truncates on (re)open, so its expectation restarts at its last open",
]
TIERS = {
    "quick": {"shards": 16, "cases": 960, "timeout": 300},
    "thorough": {"shards": 16, "cases": 150000, "timeout": 3000},
}
FLOORS = {
    "quick": {"counts": {"raw_statements_checked_against_their_own_bytes": 1500, "line_ending_reconfigured_in_place": 700, "writer_stream_comparisons": 15000, "flush_checks": 2000, "teardown_checks": 1500,
                         "payloads_written": 10000, "disk_readbacks": 1000,
                         "teardown_by_exception_in_with_block": 200}, "keys": 100},
    "thorough": {"counts": {"writer_stream_comparisons": 700000}, "keys": 150},
}
KINDS = ["path", "bytesio", "stringio", "binfile", "textfile", "console", "custom",
         "textfile-latin1", "textfile-utf16", "tty-text", "console-text",
         "textfile-tmpwrapper", "textfile-codecs"]


class TtyText(io.StringIO):
    """A caller-supplied text stream that claims to be a terminal (pty wrapper, notebook cell...)."""

    def isatty(self):
        return True
TEXT_ENCODINGS = {"textfile": "utf-8", "textfile-latin1": "latin-1", "textfile-utf16": "utf-16",
                  # text file objects that are proxies rather than io.TextIOBase instances
                  "textfile-tmpwrapper": "utf-8", "textfile-codecs": "utf-8"}


class W:
    """Harness-side handle of one writer."""

    def __init__(self, kind, tmp, idx):
        self.kind = kind
        self.registered = False
        self.expected = bytearray()
        self.path = None
        self.stream = None
        self.open_epoch = False      # path writers: has it (re)opened since last disconnect?
        self.pending_truncate = False  # path writers: the next write reopens with "wb+"
        self.connected = False         # written through the builder since its last disconnect
        if kind == "path":
            # the directories (two missing levels) are created by the writer when it connects
            self.path = os.path.join(tmp, f"sub{idx}", "nested", f"out{idx}.gcode")
            self.writer = FileWriter(self.path)
        elif kind == "bytesio":
            self.stream = io.BytesIO()
            self.writer = FileWriter(self.stream)
        elif kind == "stringio":
            self.stream = io.StringIO(newline="")
            self.writer = FileWriter(self.stream)
        elif kind == "binfile":
            self.path = os.path.join(tmp, f"bin{idx}.gcode")
            self.stream = open(self.path, "wb")
            self.writer = FileWriter(self.stream)
        elif kind == "textfile-tmpwrapper":
            self.stream = tempfile.NamedTemporaryFile("w", encoding="utf-8", newline="", delete=False,
                                                      dir=tmp, prefix=f"tw{idx}_", suffix=".gcode")
            self.path = self.stream.name
            self.writer = FileWriter(self.stream)
        elif kind == "textfile-codecs":
            import codecs
            self.path = os.path.join(tmp, f"codecs{idx}.gcode")
            self.stream = codecs.open(self.path, "w", "utf-8")
            self.writer = FileWriter(self.stream)
        elif kind in TEXT_ENCODINGS:
            # a caller-supplied text stream in the caller's encoding: the file must hold the same TEXT
            self.path = os.path.join(tmp, f"txt{idx}.gcode")
            self.stream = open(self.path, "w", encoding=TEXT_ENCODINGS[kind], newline="")
            self.writer = FileWriter(self.stream)
        elif kind == "tty-text":
            self.stream = TtyText(newline="")
            self.writer = FileWriter(self.stream)
        elif kind == "console-text":
            # the console writer while sys.stdout / sys.stderr is a text-only replacement without
            # .buffer (redirect_stdout(StringIO()), notebooks, IDLE)
            fake = io.StringIO(newline="")
            use_err = idx % 2 == 1
            old = sys.stderr if use_err else sys.stdout
            try:
                if use_err:
                    sys.stderr = fake
                else:
                    sys.stdout = fake
                self.writer = ConsoleWriter(stderr=use_err)
            finally:
                if use_err:
                    sys.stderr = old
                else:
                    sys.stdout = old
            self.stream = fake
        elif kind == "console":
            class FakeStd:
                buffer = io.BytesIO()
            fake = FakeStd()
            fake.buffer = io.BytesIO()
            use_err = idx % 2 == 1
            old = sys.stderr if use_err else sys.stdout
            try:
                if use_err:
                    sys.stderr = fake
                else:
                    sys.stdout = fake
                self.writer = ConsoleWriter(stderr=use_err)
            finally:
                if use_err:
                    sys.stderr = old
                else:
                    sys.stdout = old
            self.stream = fake.buffer
        else:
            self.writer = RecordingWriter()

    def actual(self, after_flush):
        """Bytes this writer holds now (None = not observable yet)."""
        k = self.kind
        if k == "custom":
            return b"".join(self.writer.payloads)
        if k in ("bytesio", "console"):
            return self.stream.getvalue()
        if k in ("stringio", "tty-text", "console-text"):
            return self.stream.getvalue().encode("utf-8")
        if k in ("binfile", "path") or k in TEXT_ENCODINGS:
            if not after_flush:
                return None
            if not os.path.exists(self.path):
                return b"" if not self.expected else None
            with open(self.path, "rb") as f:
                data = f.read()
            if k in TEXT_ENCODINGS and k != "textfile":
                # compare as text: decode with the stream's own encoding, re-encode as UTF-8
                try:
                    return data.decode(TEXT_ENCODINGS[k]).encode("utf-8")
                except UnicodeDecodeError:
                    return b"<undecodable in %s>" % TEXT_ENCODINGS[k].encode() + data[:60]
            return data
        return None


def fd_open_on(path):
    n = 0
    for fd in os.listdir("/proc/self/fd"):
        try:
            if os.readlink(f"/proc/self/fd/{fd}") == path:
                n += 1
        except OSError:
            pass
    return n


RAW = ["G4 P1", "M400", "G1 X1 Y2 F600", "M117 capa"]


class _Stop(Exception):
    pass


def run_case(ctx, col, case):
    rng = ctx.rng(case)
    tmp = tempfile.mkdtemp(prefix="c14_")
    try:
        _run(ctx, col, case, rng, tmp)
    finally:
        shutil.rmtree(tmp, ignore_errors=True)


def _run(ctx, col, case, rng, tmp):
    le = rng.choice(["\n", "\r\n"])
    n = rng.randint(2, 5)
    writers = [W(rng.choice(KINDS), tmp, i) for i in range(n)]
    cfg = {}
    from_config = rng.random() < 0.3
    if from_config:
        # let the builder create its own path-based writer from the configuration (output=...)
        cfg["output"] = os.path.join(tmp, "cfg", "configured.gcode")
    g = GCodeBuilder(line_endings=le.encode("unicode-escape").decode(), **cfg)
    cur = {"le": le}
    if from_config:
        w0 = W("custom", tmp, 99)
        w0.kind, w0.path, w0.writer = "path", cfg["output"], g.get_writer(0)
        w0.registered = True
        writers.append(w0)
        n += 1
        col.count("config_created_writers")
    ref = RecordingWriter()
    g.add_writer(ref)
    kinds = "+".join(sorted(w.kind for w in writers))
    latin1 = any(w.kind == "textfile-latin1" for w in writers)
    log = []
    seen = 0

    def fail(kind, mech=None, **detail):
        col.violation(kind, ctx.case_ref(case),
                      {"writers": [w.kind for w in writers], "line_ending": le, "history_tail": log[-10:], **detail},
                      mechanism=mech)
        return False

    def account():
        """Distribute the payloads written since the last call to the registered writers."""
        nonlocal seen
        new = ref.payloads[seen:]
        seen = len(ref.payloads)
        col.count("payloads_written", len(new))
        for w in writers:
            if w.registered and new:
                if w.kind == "path":
                    if w.pending_truncate:
                        w.expected = bytearray()
                        w.pending_truncate = False
                    w.open_epoch = True
                w.connected = True
                for p in new:
                    w.expected += p
        return new

    def compare(after_flush, label):
        for i, w in enumerate(writers):
            on_disk = w.kind in ("binfile", "path") or w.kind in TEXT_ENCODINGS
            if not after_flush and on_disk:
                continue
            if after_flush and not w.registered and on_disk:
                continue    # flush()/teardown() only concern registered writers
            if (w.kind == "binfile" or w.kind in TEXT_ENCODINGS) and not w.connected:
                # not connected: builder.flush() cannot reach the stream; its owner flushes
                w.stream.flush()
            got = w.actual(after_flush)
            if got is None:
                continue
            col.count("writer_stream_comparisons")
            if on_disk:
                col.count("disk_readbacks")
            if got != bytes(w.expected):
                what = "bytes-lost" if len(got) < len(w.expected) else (
                    "bytes-duplicated" if len(got) > len(w.expected) else "bytes-differ")
                return fail("writer-content-differs", writer=i, writer_kind=w.kind, after=label, what=what,
                            got_tail=got[-120:].decode("utf-8", "replace"),
                            want_tail=bytes(w.expected)[-120:].decode("utf-8", "replace"),
                            got_len=len(got), want_len=len(w.expected),
                            mech=f"c14:{w.kind}:{what}:{label}")
        return True

    def emit_one(which):
        if which == "move":
            g.move(x=rng.uniform(-50, 50), y=rng.uniform(-50, 50), F=rng.choice([600, 1200]))
        elif which == "rapid":
            g.rapid(z=rng.uniform(0, 10), comment=rng.choice(["retract", "subir ñ"] + ([] if latin1 else ["上へ"])))
        elif which == "comment":
            g.comment(rng.choice(["capa número 3", "plain", "ø12 façade é"] + ([] if latin1 else ["日本語 ✓", "ø12 – façade"])))
        elif which == "tool":
            if g.state.is_tool_active:
                g.tool_off()
            else:
                g.tool_on("cw", 1000)
        elif which == "raw":
            # a statement handed to write() as text: the bytes every output receives are known without
            # looking at any output -- the statement followed by the line ending in force, in UTF-8
            text = rng.choice(RAW)
            before = len(ref.payloads)
            g.write(text)
            got = b"".join(ref.payloads[before:])
            want = (text + cur["le"]).encode("utf-8")
            col.count("raw_statements_checked_against_their_own_bytes")
            if got != want:
                account()
                fail("written-statement-delivered-as-other-bytes", statement=text, delivered=got.decode("utf-8", "replace"),
                     expected=want.decode("utf-8"), mech="c14:raw-bytes-differ")
                raise _Stop()
        elif which == "ending":
            # the line ending re-configured in place through the documented accessor
            cur["le"] = rng.choice(["\n", "\r\n"])
            g.format.set_line_endings(cur["le"].encode("unicode-escape").decode())
            col.count("line_ending_reconfigured_in_place")
        else:
            g.set_distance_mode(rng.choice(["absolute", "relative"]))

    for _ in range(rng.randint(25, 45)):
        r = rng.random()
        if r < 0.15:
            i = rng.randrange(n)
            g.add_writer(writers[i].writer)
            writers[i].registered = True
            log.append(["add_writer", i])
            col.key(kinds, "add")
        elif r < 0.25:
            i = rng.randrange(n)
            g.remove_writer(writers[i].writer)
            writers[i].registered = False
            log.append(["remove_writer", i])
            col.key(kinds, "remove")
        elif r < 0.80:
            which = rng.choice(["move", "comment", "tool", "mode", "rapid", "raw", "raw", "ending"])
            try:
                emit_one(which)
            except _Stop:
                return
            except Exception as e:     # every registered writer is healthy: delivery must not fail
                account()
                fail("emitting-call-raised", call=which, error=repr(e), cause=repr(e.__cause__),
                     mech=f"c14:write-raised:{type(e).__name__}")
                return
            log.append([which])
            account()
            col.key(kinds, "write")
            if not compare(False, "write"):
                return
            continue
        elif r < 0.92:
            g.flush()
            account()
            log.append(["flush"])
            col.count("flush_checks")
            col.key(kinds, "flush")
            if not compare(True, "flush"):
                return
        else:
            registered = [w for w in writers if w.registered]
            counts_before = {id(w): w.writer.disconnected for w in registered if w.kind == "custom"}
            ref_before = ref.disconnected
            r = rng.random()
            if r < 0.25:
                g.__exit__(None, None, None)     # leaving a `with GCodeBuilder(...)` block tears down
            elif r < 0.45:
                # ... also when the block is left by an exception (that is what the with form is for)
                err = RuntimeError("body of the with block failed")
                g.__exit__(RuntimeError, err, None)
                col.count("teardown_by_exception_in_with_block")
            else:
                g.teardown()
            account()
            log.append(["teardown"])
            col.count("teardown_checks")
            col.key(kinds, "teardown")
            # path-based files must be complete on disk; caller-owned streams are the caller's business
            for i, w in enumerate(registered):
                if w.kind == "path" and w.open_epoch:
                    col.count("writer_stream_comparisons")
                    col.count("disk_readbacks")
                    with open(w.path, "rb") as f:
                        got = f.read()
                    if got != bytes(w.expected):
                        return fail("file-incomplete-after-teardown", writer=i, got_len=len(got),
                                    want_len=len(w.expected), mech="c14:path:teardown")
                    if fd_open_on(w.path):
                        return fail("file-descriptor-left-open-after-teardown", writer=i, path=w.path)
                if w.kind == "custom" and w.writer.disconnected != counts_before[id(w)] + 1:
                    return fail("writer-not-disconnected-exactly-once", writer=i,
                                disconnects=w.writer.disconnected - counts_before[id(w)])
                if w.kind != "custom" and w.writer._file is not None:
                    return fail("writer-still-connected-after-teardown", writer=i, writer_kind=w.kind)
            if ref.disconnected != ref_before + 1:
                return fail("reference-writer-not-disconnected", disconnects=ref.disconnected - ref_before)
            if g._writers:
                return fail("writer-list-not-empty-after-teardown", remaining=len(g._writers))
            # nothing is registered any more (also the reference): re-register for the rest of the history
            for w in writers:
                if w.registered:
                    w.connected = False
                    if w.kind == "path" and w.open_epoch:
                        w.pending_truncate = True     # next open truncates
                        w.open_epoch = False
                w.registered = False
            g.add_writer(ref)
    # end: flush, compare everything the owners can now observe
    g.flush()
    account()
    if not compare(True, "final-flush"):
        return
    for w in writers:
        if w.stream is not None and (w.kind == "binfile" or w.kind in TEXT_ENCODINGS):
            w.stream.close()
        if w.kind == "path":
            w.writer.disconnect()
    if case % 97 == 0:
        col.sample({"case": case, "writers": [w.kind for w in writers], "line_ending": le,
                    "history": log[:14], "payloads": len(ref.payloads)})


def run_shard(ctx, col):
    for case in ctx.cases():
        run_case(ctx, col, case)
        col.evaluations += 1
