"""C02 Interlocks: no unsafe tool/coolant/halt sequence is ever emitted.

Monitors
  (a) wire automaton: driven only by the M-codes that reach the recording
      writer (harness.interp events) -- independent of the builder's flags;
  (b) reference 2-bit automaton stepped by the accepted calls: predicts for
      every call whether it must be rejected (interlock), may be rejected
      (argument validation) or must succeed.
"""

from __future__ import annotations

from gscrib.excepts import CoolantStateError, ToolStateError

from gscrib.excepts import DeviceError
from gscrib.writers import BaseWriter

from harness import stateops
from harness.session import Session

PROP = "C02"
LEVEL = "exploration"
TECHNIQUE = 'wire interlock automaton over emitted M-codes + reference 2-bit automaton stepped by accepted calls (predicts must-reject / may-reject / must-accept); fault injection: a second output that fails with DeviceError'
LEVEL_TEXT = 'Held on random full-API histories; every (tool, coolant) x guarded-operation pair is attempted (floors). Safety over unbounded histories: sampled, not proved.'
RULE = ("random histories (40-60 calls) over tool_on/off, power_on/off, coolant_on/off, tool_change, "
        "halt (9 modes, with/without S/R), pause, stop, wait, emergency_halt interleaved with moves "
        "(with S/F words), probes, mode/unit/plane changes and temperature commands, arguments from a "
        "grid incl. invalid ones; non-trivial = guarded operation attempted; distinct = (tool, coolant, "
        "operation, outcome class) tuples; a quarter of the histories have a second output, registered after "
        "the recording one, that fails with DeviceError on 5-15 % of its writes; every (tool,coolant) x guarded-op pair must be attempted")
ASSUMPTIONS = [
    "wire automaton: M3/M4 start, M5 stop, M7/M8 coolant on, M9 off, M6 tool change, M0/M1/M2/M30/M60/M109/M190/M191/M400 halt codes",
    "argument validity model: speeds/powers/feeds >= 0, tool number >= 1, enum strings from the documented sets",
    "no user bounds in this workload (C03/C06 cover bounds), no non-finite numbers (C05/C08 cover them)",
]
TIERS = {
    "quick": {"shards": 16, "cases": 800, "calls": 50, "timeout": 300},
    "thorough": {"shards": 16, "cases": 300000, "calls": 60, "timeout": 3000},
}
FLOORS = {
    "quick": {"counts": {"calls": 30000, "output_faults_injected": 300, "wire_events_checked": 8000, "interlock_rejections": 3000,
                         "guarded_accepted": 2000}, "keys": 70},
    "thorough": {"counts": {"calls": 2000000, "interlock_rejections": 150000}, "keys": 80},
}
GUARDED = ["tool_on", "power_on", "coolant_on", "tool_change", "halt", "pause", "stop", "wait"]


class FailingWriter(BaseWriter):
    """A second output (registered AFTER the recording writer) that now and then fails with DeviceError,
    as a device writer does when the link drops: the line has reached the first output by then."""

    def __init__(self, rng, p):
        self.rng, self.p = rng, p

    def connect(self):
        return self

    def disconnect(self, wait=True):
        pass

    def flush(self):
        pass

    def write(self, statement):
        if self.rng.random() < self.p:
            raise DeviceError("injected output fault")


def run_case(ctx, col, case):
    rng = ctx.rng(case)
    s = Session(dp=rng.choice([3, 5]))
    model = stateops.Model()
    failing = None
    if rng.random() < 0.25:
        import random
        failing = FailingWriter(random.Random(rng.randrange(1 << 30)), rng.choice([0.05, 0.15]))
        s.g.add_writer(failing)
        col.count("histories_with_a_failing_second_output")
    log = []
    checked_events = 0
    for _ in range(ctx.params["calls"]):
        op = stateops.draw(rng)
        before = model.state()
        outcome, exc, new, _ = s.call(op.name, *op.args, **op.kwargs)
        col.count("calls")
        log.append(op.render() + [outcome if exc is None else type(exc).__name__])

        def bad(kind, mech=None, **detail):
            col.violation(kind, ctx.case_ref(case),
                          {"model_before": before, "op": op.render(), "outcome": outcome,
                           "error": repr(exc), "history_tail": log[-8:], **detail}, mechanism=mech)

        if s.lex_errors:
            bad("unparseable-output", errors=str(s.lex_errors[:2]))
            return
        # (a) wire automaton ------------------------------------------------
        events = s.m.events[checked_events:]
        checked_events = len(s.m.events)
        for ev, code, tool_before, coolant_before in events:
            col.count("wire_events_checked")
            if ev == "tool_start" and tool_before:
                bad("wire:tool-start-while-tool-running", code=code)
                return
            if ev == "coolant_start" and coolant_before is not None:
                bad("wire:coolant-start-while-coolant-on", code=code)
                return
            if ev in ("tool_change", "halt") and (tool_before or coolant_before is not None):
                bad(f"wire:{ev}-while-active", code=code, tool=tool_before, coolant=coolant_before)
                return
        # (b) reference automaton ---------------------------------------------
        blocked_tool = op.needs_tool_off and model.tool
        blocked_cool = op.needs_coolant_off and model.coolant
        blocked = blocked_tool or blocked_cool
        if failing is not None and isinstance(exc, DeviceError):
            # the fault hit after the line(s) had reached the first output: the machine is in the state
            # the wire shows, and the builder must go on enforcing the interlocks against THAT state
            if blocked and events:
                bad("guarded-call-emitted-in-forbidden-state-before-output-fault")
                return
            model.tool, model.coolant = s.m.tool_on, s.m.coolant is not None
            col.count("output_faults_injected")
            cls = "DeviceError"
        elif outcome == "ok":
            if blocked:
                bad("guarded-call-accepted-in-forbidden-state")
                return
            if not op.valid:
                bad("invalid-arguments-accepted")
                return
            op.apply(model)
            if op.guarded:
                col.count("guarded_accepted")
            cls = "ok"
        else:
            if isinstance(exc, ToolStateError):
                if not model.tool or not op.needs_tool_off:
                    bad("ToolStateError-without-running-tool-or-on-unguarded-op")
                    return
                col.count("interlock_rejections")
                cls = "ToolStateError"
            elif isinstance(exc, CoolantStateError):
                if not model.coolant or not op.needs_coolant_off:
                    bad("CoolantStateError-without-coolant-or-on-unguarded-op")
                    return
                col.count("interlock_rejections")
                cls = "CoolantStateError"
            else:  # ValueError
                if op.valid:
                    bad("valid-call-rejected-with-ValueError")
                    return
                col.count("validation_rejections")
                cls = "ValueError"
        # builder flags must agree with the reference automaton as well
        st = s.g.state
        if (st.is_tool_active, st.is_coolant_active) != (model.tool, model.coolant):
            bad("state-flags-differ-from-reference-automaton",
                flags=[st.is_tool_active, st.is_coolant_active], model=list(model.state()))
            return
        # wire-tracked bits agree too
        if (s.m.tool_on, s.m.coolant is not None) != (model.tool, model.coolant):
            bad("wire-state-differs-from-reference-automaton",
                wire=[s.m.tool_on, s.m.coolant], model=list(model.state()))
            return
        if op.guarded:
            col.key(before[0], before[1], op.tag, cls)
            col.count(f"attempt:{before[0]}{before[1]}:{op.name}")
    if case % 199 == 0:
        col.sample({"case": case, "history": log[:15], "emitted": [ln.raw for ln in s.lines[:15]]})


def run_shard(ctx, col):
    for case in ctx.cases():
        run_case(ctx, col, case)
        col.evaluations += 1
