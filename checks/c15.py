"""C15 Streamed print jobs arrive complete, in order and checksummed.

Monitor: the real printcore (sender, listener and print threads) streams a
job over a real PTY to a Marlin-style firmware model (harness.devices); the
firmware's accepted log and the raw transmission log are checked offline:
format N<k> <cmd>*<xor>, numbering, byte-identical resends, and -- once the
sender reports the job finished and the link has gone quiet -- acceptance of
every non-comment job line exactly once and in order.
"""

from __future__ import annotations

import itertools
import logging
import re
import sys
import threading
import time

from gscrib import GCodeBuilder
from gscrib.printrun import gcoder
from gscrib.printrun.printcore import printcore

from harness import sched
from harness.devices import Behaviour, MarlinPTY, NUMBERED, xor
from harness.wire import RecordingWriter

PROP = "C15"
LEVEL = "fault_enumeration"
TECHNIQUE = 'offline history checker over the transmission log and the accepted log of a PTY Marlin firmware model driven by the real printcore threads; fault enumeration by transmission index; jobs extended with send() while streaming; sender event-log monitors (flow-control tokens, resend requests honoured); sys.monitoring yield injection and delay points'
LEVEL_TEXT = 'Every subset (size <= 2 quick / 3 thorough) of corrupted transmission indices of a short job is enumerated under three latency classes, plus random jobs; schedules are perturbed, not enumerated. Listed known findings excepted.'
RULE = ("jobs produced by GCodeBuilder (moves, arcs, comments incl. non-ASCII, blank and comment-only lines, "
        "2-60 lines); corrupted transmissions by index: EVERY subset of size <= k of the transmission indices "
        "of short jobs (k=2 quick, 3 thorough) plus random subsets, bursts and repeated corruption of "
        "resent lines on longer jobs; a quarter of the random jobs are handed over in two parts (head to "
        "startprint(), tail appended with printcore.send() while the print is ongoing); firmware latency classes {0, 0-3 ms, 10-30 ms, 100-300 ms}; "
        "switch interval 1 us and sys.monitoring yield injection in the printcore threads; distinct = "
        "(fault-pattern class, latency class, wire interleaving signature)")
ASSUMPTIONS = [
    "firmware model: Marlin line-number/checksum/resend semantics incl. input flush on resend (harness.devices.MarlinPTY)",
    "only corruption is injected (a silently lost line is never answered by a Marlin firmware; C15 states no timeout behaviour)",
    "'job finished' = printcore.printing False and print thread gone; quiet = device idle for max(0.3 s, 4x latency)",
    "a sender that stops transmitting while the firmware has answered everything and lines are outstanding (idle >= 3 s) is reported as a stall",
]
TIERS = {
    "quick": {"shards": 32, "cases": 32, "enum_lines": 3, "enum_k": 2, "random_jobs": 14, "timeout": 500, "parallel": 32},
    "thorough": {"shards": 32, "cases": 32, "enum_lines": 4, "enum_k": 3, "random_jobs": 200, "timeout": 3400, "parallel": 32},
}
FLOORS = {
    "quick": {"counts": {"resend_requests_followed_through_the_sender": 3000, "jobs_streamed": 480, "transmissions_checked": 3000, "resends_requested": 300,
                         "checksums_verified": 3000, "jobs_with_faults": 300, "enumerated_fault_patterns": 87,
                         "jobs_extended_while_printing": 40,
                         "yields_injected": 50000, "context_switch_observations": 5000}, "keys": 60,
              "max_inconclusive_frac": 0.2},
    "thorough": {"counts": {"jobs_streamed": 4000, "transmissions_checked": 60000}, "keys": 200,
                 "max_inconclusive_frac": 0.2},
}
ENUMERATED = {"quick": "every subset of size <= 2 of the transmission indices 0..n+3 of 3-line jobs, x 3 latency classes",
              "thorough": "every subset of size <= 3 of the transmission indices 0..n+4 of 4-line jobs, x 3 latency classes"}
LAT = {"0": (0.0, 0.0), "0-3ms": (0.0, 0.003), "10-30ms": (0.010, 0.030), "100-300ms": (0.1, 0.3)}
COMMENT = re.compile(r";.*$")


class Faulty(Behaviour):
    def __init__(self, rng, corrupt_idx, lat):
        self.rng = rng
        self.idx = set(corrupt_idx)
        self.lo, self.hi = LAT[lat]
        self.corrupted = []
        # request spellings of the firmwares printcore supports (Marlin, Repetier, Teacup)
        self.resend_format = rng.choice([b"Resend: %d", b"Resend: %d", b"Resend:%d", b"rs %d",
                                         b"rs N%d Expected checksum 67", b"Resend: N:%d"])
        # growing jobs: the acknowledgment of the first job line is withheld until the harness has
        # appended the rest of the job through printcore.send() (so the print is certainly ongoing)
        self.hold = None

    def latency(self, dev, index, line):
        if index == 0 and self.hold is not None:
            self.hold.wait(5.0)
        return self.rng.uniform(self.lo, self.hi)

    def resend_latency(self, dev):
        return self.rng.uniform(self.lo, self.hi)

    def corrupt(self, dev, tx_index, raw):
        if tx_index not in self.idx:
            return raw
        m = NUMBERED.match(raw)
        body_start = raw.find(b" ") + 1
        star = raw.rfind(b"*")
        if star <= body_start:
            return raw
        pos = self.rng.randrange(body_start, star)
        b = bytearray(raw)
        b[pos] ^= 0x01 if b[pos] not in (0x0b, 0x0a ^ 0x01) else 0x02
        self.corrupted.append((tx_index, raw.decode("latin1")))
        return bytes(b)


class MonitoredCore(printcore):
    """printcore with two observation points (no behaviour change): every assignment to the
    clear-to-send flag and every transmission is logged with the thread that performed it."""

    def __init__(self, *a, **kw):
        self.__dict__["_mon"] = []
        self.__dict__["_clear_value"] = 0
        self.__dict__["_resendfrom_value"] = -1
        super().__init__(*a, **kw)

    @property
    def clear(self):
        return self.__dict__["_clear_value"]

    @clear.setter
    def clear(self, value):
        self.__dict__["_mon"].append(("clear", bool(value), threading.current_thread().name))
        self.__dict__["_clear_value"] = value

    @property
    def resendfrom(self):
        return self.__dict__["_resendfrom_value"]

    @resendfrom.setter
    def resendfrom(self, value):
        self.__dict__["_mon"].append(("resendfrom", value, threading.current_thread().name))
        self.__dict__["_resendfrom_value"] = value

    def logError(self, error):
        # "Print thread died due to the following error: ..." and friends
        self.__dict__["_mon"].append(("error", str(error)[-300:], threading.current_thread().name))
        return super().logError(error)

    def _readline(self):
        line = super()._readline()
        if line:
            self.__dict__["_mon"].append(("recv", line.strip(), threading.current_thread().name))
        return line

    def _send(self, command, lineno=0, calcchecksum=False):
        prefix = f"N{lineno} " if calcchecksum else ""
        self.__dict__["_mon"].append(("send", prefix + command, threading.current_thread().name))
        return super()._send(command, lineno, calcchecksum)


def listener_touched_resendfrom_between(events, prev_n, n):
    """Did the listener thread assign 'resendfrom' while the print thread was between its
    transmissions of line prev_n and line n (the unsynchronised-counter race), looking at the
    LAST such pair of consecutive print-thread transmissions?"""
    sends = [(i, e[1]) for i, e in enumerate(events) if e[0] == "send" and e[2] == "print thread"
             and "M110" not in e[1] and e[1].startswith("N")]
    pair = None
    for (i, a), (j, b) in zip(sends, sends[1:]):
        try:
            na, nb = int(a[1:].split(" ")[0]), int(b[1:].split(" ")[0])
        except ValueError:
            continue
        if na == prev_n and nb == n:
            pair = (i, j)
    if pair is None:
        return False
    # the race window opens when the print thread starts servicing the previous line
    lo = pair[0]
    while lo > 0 and not (events[lo - 1][0] == "send" and events[lo - 1][2] == "print thread"):
        lo -= 1
    return any(e[0] == "resendfrom" and e[2] == "read thread" for e in events[lo:pair[1]])


def ignored_resend_requests(events):
    """'a resend request makes transmission restart from the requested line': for every request the
    sender RECEIVED for a line it had transmitted before, one of the next two job-line transmissions of
    the print thread must be that line (one transmission may already be under way when the request comes
    in), unless a newer request arrives first.  Reported here only when, in addition, the listener never
    recorded the request (no assignment of the requested number to the resend counter before the next
    line is received): a request that was recorded and then overwritten by the print thread is the
    lost-update race, which the skip monitor judges."""
    out = []
    sent_before = set()
    n = len(events)
    for i, e in enumerate(events):
        if e[0] == "send" and e[2] == "print thread" and e[1].startswith("N") and "M110" not in e[1]:
            try:
                sent_before.add(int(e[1][1:].split(" ")[0]))
            except ValueError:
                pass
            continue
        if e[0] != "recv":
            continue
        low = e[1].lower()
        if not (low.startswith("resend") or low.startswith("rs")):
            continue
        m = re.search(r"(\d+)", e[1])
        if not m:
            continue
        k = int(m.group(1))
        if k not in sent_before:
            continue
        following, recorded, superseded = [], False, False
        for f in events[i + 1:]:
            if f[0] == "recv":
                fl = f[1].lower()
                if fl.startswith("resend") or fl.startswith("rs"):
                    superseded = True
                    break
                if not following and not recorded:
                    # the listener has moved on to the next line without recording the request
                    pass
            elif f[0] == "resendfrom" and f[2] == "read thread" and f[1] == k:
                recorded = True
            elif f[0] == "send" and f[2] == "print thread" and f[1].startswith("N") and "M110" not in f[1]:
                try:
                    following.append(int(f[1][1:].split(" ")[0]))
                except ValueError:
                    pass
                if len(following) == 2:
                    break
        if superseded or len(following) < 2 or recorded:
            continue
        if k not in following:
            out.append({"requested": k, "next_transmissions": following, "request": e[1]})
    return out


def tokens_conserved(events):
    """Flow-control bookkeeping of the sender: every job-line transmission made by the print thread
    must be licensed by its own clear-to-send event from the listener thread (the flag is a token:
    the print thread takes it down before it transmits).  Returns (ok, transmissions, tokens)."""
    tokens = sends = 0
    ok = True
    for kind, what, thread in events:
        if kind == "recv":
            continue
        if kind == "clear" and what and thread == "read thread":
            tokens += 1
        elif kind == "send" and thread == "print thread" and "M110" not in what:
            sends += 1
            if sends > tokens:
                ok = False
    return ok, sends, tokens


def make_print_job(rng, nlines):
    """A 3-D-print-like job: extruding moves with growing E, layer changes, z-hops back onto the layer
    being printed and a non-extruding end sequence (the sender walks such a job through the layer
    index of the bundled G-code analyser)."""
    lines = ["G28", "G1 Z0.2 F600"]
    e, z = 0.0, 0.2
    while len(lines) < nlines - 3:
        r = rng.random()
        if r < 0.6:
            e += round(rng.uniform(0.2, 1.5), 3)
            lines.append(f"G1 X{round(rng.uniform(0, 100), 2)} Y{round(rng.uniform(0, 100), 2)} E{round(e, 3)}"
                         + (" F1200" if rng.random() < 0.2 else ""))
        elif r < 0.75:
            z = round(z + 0.2, 2)
            lines.append(f"G1 Z{z}")
        elif r < 0.9:
            # z-hop: up, travel, back down onto the same layer
            lines += [f"G1 Z{round(z + 0.4, 2)}", f"G0 X{round(rng.uniform(0, 100), 2)} Y{round(rng.uniform(0, 100), 2)}",
                      f"G1 Z{z}"]
        else:
            lines.append("; layer note")
    lines += [f"G1 Z{round(z + 5, 2)}", "M104 S0", "M84"]
    return lines[:max(nlines, 6)]


def make_job(rng, nlines):
    if rng.random() < 0.3:
        return make_print_job(rng, nlines)
    g = GCodeBuilder()
    rec = RecordingWriter()
    g.add_writer(rec)
    g.set_axis(x=0, y=0, z=0)
    g.set_resolution(2.0)
    while len(rec.payloads) < nlines:
        r = rng.random()
        if r < 0.5:
            g.move(x=round(rng.uniform(-50, 50), 3), y=round(rng.uniform(-50, 50), 3), F=rng.choice([600, 1200]))
        elif r < 0.6:
            g.rapid(z=round(rng.uniform(0, 5), 2), comment=rng.choice(["retract", "subir ñ", "上"]))
        elif r < 0.7:
            if rng.random() < 0.3:
                # parenthesised comments inside a line, two of them with words in between
                x, y = round(rng.uniform(-50, 50), 2), round(rng.uniform(-50, 50), 2)
                g.write(rng.choice([f"G1 X{x} (first) Y{y} (second) F900", f"T{rng.randint(1, 9)} (tool) M6 (change)",
                                    f"G0 Z{abs(x)} (a ; b) ; tail (c)"]))
            elif rng.random() < 0.3:
                # a host-command comment (";@..." lines are handed to process_host_command, unknown ones are ignored)
                g.write(rng.choice([";@note layer done", "  ;@host beep"]))
            else:
                g.comment(rng.choice(["layer", "capa número 3", "G1 X999"]))
        elif r < 0.75:
            g.write("")
        elif r < 0.85:
            if g.state.is_tool_active:
                g.tool_off()
            else:
                g.tool_on("cw", 1000)
        else:
            o = g.position
            g.trace.arc((o.x + 4, o.y), (2, 0))
    text = b"".join(rec.payloads[:nlines]).decode("utf-8")
    return text.split("\n")[:-1] if text.endswith("\n") else text.split("\n")


def strip_comments(line):
    """Independent comment stripper (RS274 style): '(...)' anywhere in the line, ';' to the end of
    the line unless it sits inside parentheses."""
    out, depth = [], False
    for ch in line:
        if depth:
            if ch == ")":
                depth = False
            continue
        if ch == "(":
            depth = True
            continue
        if ch == ";":
            break
        out.append(ch)
    return "".join(out).strip()


def expected_commands(job):
    out = []
    for line in job:
        code = strip_comments(line)
        if code:
            out.append(code.encode("ascii"))
    return out


def stream_job(ctx, col, case, tag, rng, job, faults, lat, perturb=True, grow=0):
    """grow > 0: only the head of the job is handed to startprint(); the last `grow` lines are appended
    with printcore.send() while the print is ongoing (the way gscrib's own writer feeds the sender)."""
    beh = Faulty(rng, faults, lat)
    head, tail = (job[:-grow], job[-grow:]) if grow else (job, [])
    if tail and not expected_commands(head):
        head, tail = job, []
    if tail:
        beh.hold = threading.Event()
    dev = MarlinPTY(beh).start()
    p = MonitoredCore()
    p.loud = False
    want = expected_commands(job)
    info = {"job_lines": len(job), "appended_with_send": len(tail), "commands": len(want), "corrupt_tx": sorted(faults),
            "latency": lat, "tag": tag,
            "resend_format": beh.resend_format.decode()}
    verdict = None
    # random yields everywhere + 0-3 delay points inside the two protocol-critical functions
    pert = sched.Perturber(sched.printrun_functions(), seed=rng.randrange(1 << 30),
                           p_yield=0.25 if perturb else 0.0, p_sleep=0.01 if perturb else 0.0,
                           focus=(printcore._sendnext, printcore._listen),
                           n_points=rng.choice([0, 1, 2]) if perturb else 0,
                           point_delay=rng.choice([0.001, 0.003]))
    try:
        with pert:
            p.connect(dev.port, 115200)
            t0 = time.monotonic()
            while not p.online and time.monotonic() - t0 < 10:
                time.sleep(0.005)
            if not p.online:
                col.inconclusive_case(f"{tag}: printer never came online")
                return None
            gc = gcoder.GCode(head)
            if not p.startprint(gc):
                col.inconclusive_case(f"{tag}: startprint refused")
                return None
            if tail:
                appended_while_printing = 0
                for line in tail:
                    if p.printing:
                        appended_while_printing += 1
                    p.send(line)
                beh.hold.set()
                if appended_while_printing != len(tail):
                    # the print ended although the first acknowledgment was withheld: not the scenario
                    col.inconclusive_case(f"{tag}: print ended before the job could be extended")
                    return None
                col.count("jobs_extended_while_printing")
                col.count("lines_appended_while_printing", len(tail))
            quiet = max(0.3, 4 * LAT[lat][1])
            budget = 20 + len(job) * (LAT[lat][1] * 6 + 0.05)
            t0 = time.monotonic()
            finished = False
            stalled = False
            while time.monotonic() - t0 < budget:
                if not p.printing and p.print_thread is None:
                    finished = True
                    break
                if dev.quiet_for() > 3.0:
                    stalled = True
                    break
                time.sleep(0.005)
            if finished:
                # bounded progress: let the link go quiet
                t1 = time.monotonic()
                while time.monotonic() - t1 < 10:
                    n = len(dev.rx_raw)
                    time.sleep(quiet / 2)
                    if dev.quiet_for() >= quiet and len(dev.rx_raw) == n:
                        break
            verdict = "finished" if finished else ("stalled" if stalled else "watchdog")
    finally:
        if beh.hold is not None:
            beh.hold.set()
        # disconnect() joins the library's threads without a timeout: do it on the side, and if it does
        # not come back close the device under it (blocked reads/writes then fail and the threads end)
        def _disconnect():
            try:
                p.disconnect()
            except Exception:
                pass
        td = threading.Thread(target=_disconnect, name="harness-disconnect", daemon=True)
        td.start()
        td.join(15)
        dev.close()
        if td.is_alive():
            td.join(15)
            col.count("disconnect_needed_device_close")
            if td.is_alive():
                col.inconclusive_case(f"{tag}: printcore.disconnect() never returned")
    col.count("line_events_seen", pert.line_events)
    col.count("yields_injected", pert.injected)
    col.count("delay_point_hits", pert.point_hits)
    col.count("context_switch_observations", sum(pert.switch_pairs.values()))
    for (a, b), n in pert.switch_pairs.items():
        col.count(f"switch:{role(a)}->{role(b)}", n)
    conserved, n_sends, n_tokens = tokens_conserved(list(p.__dict__["_mon"]))
    info["flow_control_tokens_conserved"] = conserved
    # errors of the sending side itself (the listener also logs every "Error:" line of the device)
    info["sender_errors"] = [e[1] for e in p.__dict__["_mon"] if e[0] == "error" and e[2] != "read thread"]
    info["_mon"] = list(p.__dict__["_mon"])
    col.count("flow_control_events_observed", len(p.__dict__["_mon"]))
    col.count("jobs_with_conserved_tokens" if conserved else "jobs_with_unlicensed_transmissions")
    return analyse(ctx, col, case, info, dev, beh, want, verdict)


def role(qualname):
    name = qualname.split(".")[-1]
    if qualname.startswith("PrintrunWriter"):
        return "writer"
    return {"_listen": "listener", "_readline": "listener", "_listen_until_online": "listener",
            "_print": "printer", "_sendnext": "printer", "_sender": "sender", "_send": "send",
            "startprint": "api", "send": "api"}.get(name, name)


def analyse(ctx, col, case, info, dev, beh, want, verdict):
    col.count("jobs_streamed")
    col.evaluations += 1
    if info["corrupt_tx"]:
        col.count("jobs_with_faults")
    col.count("resends_requested", dev.resend_requests)
    col.count("checksums_verified", dev.checksum_ok + dev.checksum_bad)
    numbered = [r for r in dev.rx_raw if NUMBERED.match(r)]
    col.count("transmissions_checked", len(numbered))
    # wire interleaving signature as seen by the device: S(end) / R(esend) / A(ck)
    sig = "".join({"rx": "S", "tx-resend": "R", "ack": "A", "tx-ok-after-resend": "a"}.get(k, "")
                  for _, k, _ in dev.events)
    fault_class = fault_pattern_class(info["corrupt_tx"], len(want))
    col.key(fault_class, info["latency"], compress(sig), "extended-by-send" if info.get("appended_with_send") else "whole")
    witness = {**{k: v for k, v in info.items() if k != "_mon"}, "verdict": verdict, "resend_requests": dev.resend_requests,
               "corrupted": beh.corrupted[:6],
               "transmissions": [r.decode("latin1") for r in numbered[:40]],
               "accepted": [a.decode("latin1") for a in dev.accepted[:40]],
               "expected": [w.decode("latin1") for w in want[:40]], "wire_signature": compress(sig)}

    def fail(kind, mech=None, **d):
        col.violation(kind, ctx.case_ref(case), {**witness, **d}, mechanism=mech)
        return False

    if verdict == "watchdog":
        col.inconclusive_case(f"{info['tag']}: wall-clock watchdog (device busy), faults={info['corrupt_tx']} lat={info['latency']}")
        return None
    # ---- wire format ---------------------------------------------------------
    first_seen = {}
    top = -2
    saw_reset = False
    prev_n = None
    resend_since_prev = False
    wire = [(k, p) for _, k, p in dev.events if k in ("rx-raw", "rx-flushed", "tx-resend")]
    for kind_ev, raw in wire:
        if kind_ev == "tx-resend":
            resend_since_prev = True
            continue
        if not NUMBERED.match(raw):
            continue
        m = NUMBERED.match(raw)
        n, cmd, cs = int(m.group(1)), m.group(2), int(m.group(3))
        star = raw.rfind(b"*")
        if xor(raw[:star]) != cs:
            return fail("transmitted-checksum-is-not-xor-of-the-line", line=raw.decode("latin1"))
        if cmd.startswith(b"M110"):
            saw_reset = True
            prev_n = None
            if top >= 0:
                # a reset after job lines belongs to the end-of-job renumbering
                pass
            continue
        if not saw_reset:
            return fail("job-line-before-M110-reset", line=raw.decode("latin1"))
        # transmission either continues with the next number or restarts at a lower one (resend);
        # it never skips forward: "a resend request makes transmission restart from the requested line"
        if prev_n is not None and n > prev_n + 1:
            # known mechanism: the listener stores a new 'Resend: r' (self.resendfrom = r) while the
            # print thread is executing 'self.resendfrom += 1' (lost update): only possible when a
            # resend request was issued between the two transmissions
            raced = listener_touched_resendfrom_between(info.get("_mon", []), prev_n, n)
            return fail("transmission-skips-a-line", previous=prev_n, number=n,
                        resend_request_in_between=resend_since_prev,
                        listener_wrote_resendfrom_concurrently=raced,
                        mech="c15:wire:skip-after-concurrent-resend-request" if raced
                        else "c15:wire:skip")
        prev_n = n
        resend_since_prev = False
        if n in first_seen:
            if first_seen[n] != raw:
                return fail("resent-line-differs-from-original", number=n,
                            original=first_seen[n].decode("latin1"), resent=raw.decode("latin1"))
        else:
            if n != max(top, -1) + 1:
                return fail("line-numbers-not-consecutive", number=n, previous_max=top)
            first_seen[n] = raw
            top = n
            if n < len(want) and cmd != want[n]:
                return fail("transmitted-command-differs-from-job-line", number=n,
                            sent=cmd.decode("latin1"), job=want[n].decode("latin1"))
    ignored = ignored_resend_requests(info.get("_mon", []))
    col.count("resend_requests_followed_through_the_sender", sum(1 for e in info.get("_mon", []) if e[0] == "recv"
              and (e[1].lower().startswith("resend") or e[1].lower().startswith("rs"))))
    if ignored:
        return fail("resend-request-ignored-by-the-sender", ignored=ignored[:3], mech="c15:resend-request-ignored")
    unnumbered = [r for r in dev.rx_raw if r.strip() and not NUMBERED.match(r) and not r.startswith(b"G4 P0")]
    if unnumbered:
        return fail("job-transmission-without-line-number-or-checksum", lines=[u.decode("latin1") for u in unnumbered[:5]])
    # ---- end to end ------------------------------------------------------------
    if verdict == "stalled" and dev.accepted == want:
        # the firmware accepted the whole job exactly once and in order -- what C15 states -- but the
        # sender never reported completion (seen once: a late duplicate of an earlier line makes the
        # firmware ask for the line after the last one, and the print thread dies of a KeyError in
        # sentlines).  Outside the statement: noted, not judged.
        col.note("job accepted completely but the sender never reported completion"
                 + (" (print thread died)" if info.get("sender_errors") else ""))
        return True
    if verdict == "stalled":
        return fail("sender-stalled-with-lines-outstanding", mech=classify(info, dev, want, "stalled", beh),
                    accepted_count=len(dev.accepted))
    if dev.accepted != want:
        what = ("lines-lost" if len(dev.accepted) < len(want) else
                "lines-duplicated" if len(dev.accepted) > len(want) else "lines-reordered-or-altered")
        return fail("firmware-did-not-accept-the-job-exactly-once-in-order", what=what,
                    mech=classify(info, dev, want, what, beh), accepted_count=len(dev.accepted))
    return True


def classify(info, dev, want, what, beh):
    """Known-finding classifier (by mechanism, from the witness only)."""
    faults = info["corrupt_tx"]
    if 0 in faults:
        # the M110 reset itself was corrupted: it is never stored for resending
        return "c15:corrupted-M110-reset"
    acc = dev.accepted
    if what in ("lines-lost", "stalled") and acc == want[:len(acc)] and len(acc) < len(want):
        # a clean prefix was accepted and the tail is missing.  Known mechanism: every resend episode
        # yields one surplus anonymous 'ok' ("Resend: n" is followed by "ok", and the resent line is
        # acknowledged again), so after k episodes the sender runs k lines ahead of the
        # acknowledgements and reports the job finished while its last lines (or a resent copy of
        # them) are still in flight; a corruption among those is never repaired.  This needs at
        # least TWO corrupted transmissions in the job -- a job with a single corrupted transmission
        # must always be recovered, whatever the number of resend requests it provoked.
        # ... and it presupposes that the sender itself kept its flow-control bookkeeping intact
        # (every transmission licensed by a clear-to-send event of its own): a tail lost by a sender
        # that transmitted without a licence is a different defect.
        # ... and that the sender got as far as transmitting every line of the job at least once and
        # ended by itself: a print thread that died of an exception, or lines that were never put on
        # the wire at all, are a different defect with the same end-to-end symptom.
        sent_numbers = {int(NUMBERED.match(r).group(1)) for r in dev.rx_raw if NUMBERED.match(r)}
        all_sent = all(n in sent_numbers for n in range(len(want)))
        if (len(beh.corrupted) >= 2 and info.get("flow_control_tokens_conserved", True)
                and all_sent and not info.get("sender_errors")):
            return "c15:tail-lost-after-repeated-resend"
    return None


def fault_pattern_class(faults, n):
    if not faults:
        return "none"
    f = sorted(faults)
    parts = []
    if 0 in f:
        parts.append("m110")
    if any(1 <= i <= 1 for i in f):
        parts.append("first")
    if any(i >= n for i in f):
        parts.append("tail+resends")
    if any(1 < i < n for i in f):
        parts.append("middle")
    if any(b - a == 1 for a, b in zip(f, f[1:])):
        parts.append("consecutive")
    return f"{len(f)}:" + "+".join(parts)


def compress(sig):
    # run-length compress, cap length
    out, prev, cnt = [], None, 0
    for ch in sig:
        if ch == prev:
            cnt += 1
        else:
            if prev:
                out.append(prev + (str(cnt) if cnt > 1 else ""))
            prev, cnt = ch, 1
    if prev:
        out.append(prev + (str(cnt) if cnt > 1 else ""))
    s = "".join(out)
    return s if len(s) <= 60 else s[:28] + ".." + s[-28:]


def run_shard(ctx, col):
    logging.disable(logging.CRITICAL)
    sys.setswitchinterval(1e-6)
    P = ctx.params
    for case in ctx.cases():
        rng = ctx.rng(case)
        # (a) exhaustive fault subsets on a short job, dealt round-robin over the cases -------------
        n = P["enum_lines"]
        # fixed job (independent of the seed, so the enumerated space has a known size): a leading
        # comment-only line, then n commands, one of them with a trailing comment
        job = ["; enumerated job"] + [f"G1 X{10 * (i + 1)} Y{5 * i} F1200" + (" ; note" if i == 1 else "")
                                      for i in range(n)]
        ncmd = len(expected_commands(job))
        space = range(0, ncmd + 1 + P["enum_k"] + 1)
        combos = [c for k in range(0, P["enum_k"] + 1) for c in itertools.combinations(space, k)]
        lats = ["0", "0-3ms", "10-30ms"]
        work = [(c, l) for c in combos for l in lats]
        for i, (faults, lat) in enumerate(work):
            if i % P["cases"] != case:
                continue
            stream_job(ctx, col, case, f"enum:{faults}:{lat}", rng, job, faults, lat)
            col.count("enumerated_fault_patterns")
        # (b) random jobs ---------------------------------------------------------------------
        for j in range(P["random_jobs"]):
            nlines = rng.choice([2, 5, 12, 30, 60, 60, 130]) if j % 5 == 0 else rng.choice([2, 5, 12, 30])
            job = make_job(rng, nlines)
            ncmd = len(expected_commands(job))
            style = rng.choice(["none", "single", "pair", "burst", "tail", "many"])
            if style == "none":
                faults = ()
            elif style == "single":
                faults = (rng.randrange(0, ncmd + 1),)
            elif style == "pair":
                faults = tuple(sorted(rng.sample(range(0, ncmd + 3), 2)))
            elif style == "burst":
                s0 = rng.randrange(1, ncmd + 1)
                faults = tuple(range(s0, s0 + rng.randint(2, 5)))
            elif style == "tail":
                faults = tuple(range(ncmd, ncmd + rng.randint(1, 3)))
            else:
                faults = tuple(sorted(rng.sample(range(1, ncmd + 6), min(ncmd, rng.randint(3, 6)))))
            lat = rng.choice(["0", "0-3ms", "10-30ms"] + (["100-300ms"] if nlines <= 5 else []))
            grow = rng.randint(1, max(1, len(job) - 1)) if (len(job) >= 2 and rng.random() < 0.25) else 0
            stream_job(ctx, col, case, f"random:{j}" + (f":grow{grow}" if grow else ""), rng, job, faults, lat,
                       perturb=rng.random() < 0.8, grow=grow)
        if case == 0:
            col.sample({"job": ["; enumerated job"] + [f"G1 X{10 * (i + 1)} Y{5 * i} F1200" for i in range(P["enum_lines"])],
                        "fault_space": "transmission indices (0 = M110 reset, then job lines and their resends)"})
