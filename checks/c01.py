"""C01 Emitted program reproduces the tracked position.

Monitor: the independent modal interpreter (harness.interp) is fed the bytes
that reach a RecordingWriter; after EVERY builder call (inside mode contexts
too) the builder's reported position / distance mode are compared with the
interpreter's on every axis the interpreter knows.  Second observer: the
bundled gscrib.printrun.gcoder analyser on the axes whose value it can know.
"""

from __future__ import annotations

import math
from fractions import Fraction

from gscrib import GCodeBuilder, GCodeCore
from gscrib.printrun import gcoder

from harness import gen
from harness.common import CaseTimeout
from harness.session import Session, approx_pos

PROP = "C01"
LEVEL = "exploration"
TECHNIQUE = 'wire monitor: independent lexer + modal G-code interpreter fed by a recording writer, compared with builder.position/distance_mode after every call; second observer gscrib.printrun.gcoder'
LEVEL_TEXT = 'Held on the random call trees of this run (counts in evidence). Exploration is the right level: the property quantifies over unbounded histories, which a monitor can only sample.'
RULE = ("random call trees over the motion API (move/rapid/absolute-bypass/set_axis/auto_home/"
        "probe/set_distance_mode/nested absolute_mode()/relative_mode() contexts/every tracer "
        "shape), compared after every call; a case is non-trivial when its history contains a "
        "relative move, a G92/G28/G38 and a mode context; distinct = (known-axes mask, distance "
        "mode, context depth, operation) tuples observed in non-trivial histories")
ASSUMPTIONS = [
    "harness.wire.Lexer and harness.interp.Machine define G0/G1/G90/G91/G92/G28/G38.x semantics",
    "unknown machine axes are never compared",
    "tolerance: 1/2 unit of the last decimal place per absolute word, accumulated per relative word, plus float slack of a few ulps",
    "no transform active (C04 covers transforms)",
]
TIERS = {
    "quick": {"shards": 16, "cases": 640, "calls": 30, "timeout": 300},
    "thorough": {"shards": 16, "cases": 24000, "calls": 40, "timeout": 3000},
}
FLOORS = {
    "quick": {"counts": {"axis_comparisons": 5000, "gcoder_comparisons": 1000,
                         "nontrivial_histories": 50, "context_checks": 200}, "keys": 60},
    "thorough": {"counts": {"axis_comparisons": 200000, "gcoder_comparisons": 40000,
                            "nontrivial_histories": 2000}, "keys": 100},
}

AX = ("X", "Y", "Z")
PROBE_MODES = ["towards", "away", "towards-no-error", "away-no-error"]


class History:
    def __init__(self, ctx, col, case, rng):
        self.ctx, self.col, self.case, self.rng = ctx, col, case, rng
        self.dp = rng.choice([0, 1, 3, 5, 8])
        # one history in six drives the bare GCodeCore (the motion core is usable on its own and has
        # its own set_axis / set_distance_mode); it has no state object, homing, probing or tracer
        self.core_only = rng.random() < 1 / 6
        self.s = Session(dp=self.dp, builder_cls=GCodeCore if self.core_only else GCodeBuilder)
        self.g = self.s.g
        self.gc = gcoder.GCode()
        self.gc_valid = {a: False for a in AX}
        self.maxabs = {a: 1.0 for a in AX}
        self.rel_steps = {a: 0 for a in AX}
        self.depth = 0
        self.log = []
        self.flags = set()
        self.keys = set()
        self.failed = False
        self.calls_left = ctx.params["calls"]
        if not self.core_only:
            self.g.set_resolution(rng.choice([0.5, 1.0, 2.0, 5.0]))
            if rng.random() < 0.5:
                self.g.set_direction(rng.choice(["cw", "ccw"]))
            if rng.random() < 0.3:
                # a working envelope: moves, axis resets and shapes that leave it are refused, and a
                # refused call must not move the position the builder reports
                half = rng.choice([40.0, 90.0, 250.0])
                self.g.set_bounds("axes", (-half, -half, -half), (half, half, half))
                self.flags.add("axes-bounds")
                col.count("histories_with_axes_bounds")

    # -- gcoder observer ------------------------------------------------
    def feed_gcoder(self, lines):
        for ln in lines:
            if not ln.words:
                continue
            try:
                self.gc.append(ln.raw, store=False)
            except Exception as e:  # analyser crash on builder output
                self.fail("gcoder-crash", {"line": ln.raw, "error": repr(e)})
                return
            code = ln.code()
            axes = self.s.m.axis_words(ln)
            if code in ("G0", "G1"):
                if not self._was_relative(ln):
                    for a in axes:
                        self.gc_valid[a] = True
            elif code == "G92":
                for a in axes:
                    self.gc_valid[a] = True
            elif code == "G28":
                for a in AX:
                    self.gc_valid[a] = False
            elif code and code.startswith("G38"):
                for a in axes:
                    self.gc_valid[a] = False

    def _was_relative(self, ln):
        return self._rel_at_line.get(id(ln), False)

    # -- one call + all comparisons ------------------------------------
    def call(self, name, *args, **kwargs):
        if self.failed:
            return
        self.calls_left -= 1
        m = self.s.m
        rel_before = m.relative
        outcome, exc, new, _ = self.s.call(name, *args, **kwargs)
        self.log.append([name, _render(args), _render(kwargs), outcome])
        self.col.count("calls")
        self.col.count("lines", len(new))
        if outcome == "rejected":
            self.col.count("rejected_calls")
        # relative flag per new line for the gcoder taint tracking
        self._rel_at_line = {}
        rel = rel_before
        for ln in new:
            c = ln.code()
            self._rel_at_line[id(ln)] = rel
            if c == "G90":
                rel = False
            elif c == "G91":
                rel = True
            if c in ("G0", "G1"):
                for a, v in m.axis_words(ln).items():
                    self.maxabs[a] = max(self.maxabs[a], abs(float(v)))
                    if rel:
                        self.rel_steps[a] += 1
                        self.flags.add("relmove")
                    else:
                        self.rel_steps[a] = 0
            elif c in ("G92", "G28") or (c or "").startswith("G38"):
                self.flags.add("reset")
                for a in m.axis_words(ln) or AX:
                    self.rel_steps[a] = 0
        self.feed_gcoder(new)
        if self.s.lex_errors:
            self.fail("unparseable-output", {"errors": [(p.decode("utf-8", "replace"), e)
                                                         for p, e in self.s.lex_errors[:3]]})
            return
        self.compare(name, outcome)

    def compare(self, name, outcome):
        g, m = self.g, self.s.m
        pos = g.position
        bpos = {"X": pos.x, "Y": pos.y, "Z": pos.z}
        mask = "".join(a if m.pos[a] is not None else "-" for a in AX)
        self.keys.add((mask, "rel" if m.relative else "abs", self.depth, name))
        if self.depth:
            self.col.count("context_checks")
        for a in AX:
            if m.pos[a] is None:
                continue
            self.col.count("axis_comparisons")
            bv = bpos[a]
            if bv is None:
                self.fail("builder-unknown-but-machine-known", {"axis": a, "machine": float(m.pos[a])})
                return
            slack = Fraction((self.rel_steps[a] + 4) * 2.0 ** -50 * max(1.0, self.maxabs[a], abs(bv)))
            tol = m.budget[a] + slack
            if abs(Fraction(bv) - m.pos[a]) > tol:
                self.fail("position-mismatch", {
                    "axis": a, "builder": bv, "machine": float(m.pos[a]),
                    "diff": float(abs(Fraction(bv) - m.pos[a])), "tolerance": float(tol)})
                return
            if self.gc_valid[a]:
                self.col.count("gcoder_comparisons")
                gv = {"X": self.gc.abs_x, "Y": self.gc.abs_y, "Z": self.gc.abs_z}[a]
                gtol = float(tol) + (self.rel_steps[a] + 4) * 2.0 ** -48 * max(1.0, self.maxabs[a])
                if abs(gv - float(m.pos[a])) > gtol + float(m.budget[a]):
                    self.fail("gcoder-position-mismatch", {
                        "axis": a, "gcoder": gv, "machine": float(m.pos[a]), "builder": bv})
                    return
        # distance mode: builder, state object and wire agree
        self.col.count("mode_comparisons")
        b_rel = g.distance_mode.is_relative
        s_rel = b_rel if self.core_only else g.state.distance_mode.is_relative
        if not (b_rel == s_rel == m.relative):
            self.fail("distance-mode-mismatch", {"builder": b_rel, "state": s_rel, "wire": m.relative})
            return
        if self.gc.relative != m.relative:
            self.fail("gcoder-mode-mismatch", {"gcoder": self.gc.relative, "wire": m.relative})
            return
        if self.core_only:
            self.col.count("core_only_checks")
        elif outcome == "ok" and _is_motion(name):
            self.col.count("state_position_comparisons")
            sp = g.state.position
            if (sp.x, sp.y, sp.z) != (pos.x, pos.y, pos.z):
                self.fail("builder-vs-state-position", {"builder": list(pos), "state": list(sp)})

    def fail(self, kind, detail):
        self.failed = True
        detail = dict(detail)
        detail["dp"] = self.dp
        detail["history_tail"] = self.log[-8:]
        detail["machine"] = approx_pos(self.s.m.pos)
        self.col.violation(kind, self.ctx.case_ref(self.case), detail)

    # -- generators -----------------------------------------------------
    def block(self, depth):
        rng = self.rng
        n = rng.randint(1, 6) if depth else 10 ** 6
        for _ in range(n):
            if self.calls_left <= 0 or self.failed:
                return
            self.step(depth)

    def step(self, depth):
        rng, g = self.rng, self.g
        r = rng.random()
        dp = self.dp
        if self.core_only:
            # remap the homing / probing / tracer slots to plain moves and axis resets
            if 0.50 <= r < 0.63:
                r = rng.choice([0.1, 0.35, 0.45])
            elif r >= 0.83 or (r >= 0.71 and depth >= 3):
                r = rng.choice([0.1, 0.35, 0.45, 0.65])
        if r < 0.30:
            op = rng.choice(["move", "rapid"])
            kw = gen.axes_subset(rng, dp)
            args, kw2 = gen.as_point_form(rng, kw)
            if rng.random() < 0.3:
                kw2["F"] = rng.choice([100, 1500.5, 0, -5])
            if rng.random() < 0.15:
                kw2["E"] = gen.coord(rng, dp, big=False)
            if rng.random() < 0.05:
                kw2[rng.choice(["E", "S"])] = float("inf")     # rejected late (formatter / validator)
            self.call(op, *args, **kw2)
        elif r < 0.40:
            op = rng.choice(["move_absolute", "rapid_absolute"])
            kw = gen.axes_subset(rng, dp)
            args, kw2 = gen.as_point_form(rng, kw)
            if rng.random() < 0.3:
                kw2[rng.choice(["F", "S"])] = rng.choice([100, 1500.5, 0, -5, -1])
            if rng.random() < 0.05:
                kw2["E"] = float("nan")     # rejected by the formatter
            self.call(op, *args, **kw2)
        elif r < 0.50:
            kw = gen.axes_subset(rng, dp)
            args, kw2 = gen.as_point_form(rng, kw)
            self.call("set_axis", *args, **kw2)
        elif r < 0.56:
            kw = gen.axes_subset(rng, dp, allow_empty=True)
            if rng.random() < 0.4:
                kw = {k: 0 for k in kw}
            self.call("auto_home", **kw)
        elif r < 0.63:
            kw = gen.axes_subset(rng, dp, allow_empty=False)
            self.call("probe", rng.choice(PROBE_MODES), **kw)
        elif r < 0.71:
            self.call("set_distance_mode", rng.choice(["absolute", "relative"]))
        elif r < 0.83 and depth < 3:
            self.flags.add("context")
            cm = rng.choice(["absolute_mode", "relative_mode"])
            self.depth += 1
            try:
                with getattr(g, cm)():
                    self.after_enter(cm)
                    self.block(depth + 1)
                    if rng.random() < 0.2:
                        raise _BodyError()
            except _BodyError:
                pass
            finally:
                self.depth -= 1
            self.after_enter(cm + ".exit")
        else:
            o = g.position.resolve()
            scale = rng.choice([5.0, 20.0])
            g.set_resolution(scale / rng.choice([6, 15, 40]))
            name, args, kw, meta = gen.shape_request(
                rng, (o.x, o.y, o.z), g.distance_mode.is_relative, scale=scale)
            self.flags.add("shape:" + meta["kind"])
            self.call(name, *args, **kw)

    def after_enter(self, label):
        """Context entry/exit emit G90/G91 outside any s.call: drain and compare."""
        if self.failed:
            return
        new = self.s.drain()
        self._rel_at_line = {}
        self.feed_gcoder(new)
        self.log.append([label, "", "", "ok"])
        self.col.count("lines", len(new))
        self.compare(label, "ok")


class _BodyError(Exception):
    pass


def _is_motion(name):
    return name in ("move", "rapid", "move_absolute", "rapid_absolute", "set_axis",
                    "auto_home", "probe") or name.startswith("trace.")


def _render(obj):
    if isinstance(obj, dict):
        return {k: _render(v) for k, v in obj.items()}
    if isinstance(obj, (list, tuple)):
        return [_render(v) for v in obj]
    if callable(obj):
        return "<fn>"
    if isinstance(obj, float) and not math.isfinite(obj):
        return repr(obj)
    return obj


def run_shard(ctx, col):
    for case in ctx.cases():
        rng = ctx.rng(case)
        h = History(ctx, col, case, rng)
        try:
            with ctx.watchdog(ctx.params.get("case_timeout", 20)):
                h.block(0)
        except CaseTimeout:
            col.inconclusive_case(f"case {case}: watchdog after {h.log[-1:]} ({len(h.s.rec.payloads)} payloads)")
        col.evaluations += 1
        if {"relmove", "reset", "context"} <= h.flags:
            col.count("nontrivial_histories")
            for k in h.keys:
                col.key(*k)
        for f in h.flags:
            if f.startswith("shape:"):
                col.count(f)
        if case % 97 == 0:
            col.sample({"case": case, "dp": h.dp, "calls": h.log[:12],
                        "emitted_head": [ln.raw for ln in h.s.lines[:12]],
                        "final_machine": approx_pos(h.s.m.pos)})
