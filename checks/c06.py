"""C06 The tool and coolant can always be switched off.

Monitor: at random checkpoints of random histories the real builder is forked
(copy.deepcopy, writers included) and each shutdown operation is executed on
its own fork; the emitted executable codes, the absence of exceptions and the
reported tool/coolant flags are asserted.
"""

from __future__ import annotations

import copy

from harness import stateops
from harness.session import Session
from harness.wire import LexError

PROP = "C06"
LEVEL = "exploration"
TECHNIQUE = 'forked-builder probe (copy.deepcopy) of all four shutdown operations at random checkpoints, codes read with the independent lexer'
LEVEL_TEXT = 'Held on random states x bounds configurations incl. tool-power ranges excluding zero.'
RULE = ("random histories over the state-tracked API under random bounds configurations (incl. "
        "tool-power ranges with min > 0, feed/tool-number/temperature/axes bounds); at 3-6 checkpoints "
        "per history the builder is forked and tool_off / power_off / coolant_off / emergency_halt(msg, "
        "reset) run on separate forks (messages: plain, empty, blank, multi-line); distinct = (tool API, tool active, coolant mode, bounds class "
        "{none, includes 0, excludes 0}, operation)")
ASSUMPTIONS = [
    "copy.deepcopy(builder) yields an independent builder in the same state",
    "executable codes are read with the independent lexer from the fork's recording writer",
]
TIERS = {
    "quick": {"shards": 16, "cases": 800, "calls": 40, "timeout": 300},
    "thorough": {"shards": 16, "cases": 200000, "calls": 50, "timeout": 3000},
}
FLOORS = {
    "quick": {"counts": {"shutdown_ops_checked": 10000, "checked_with_tool_running": 2500,
                         "checked_with_coolant_on": 2000, "checked_bounds_exclude_zero": 1500,
                         "checkpoints_after_a_half_refused_call": 300}, "keys": 60},
    "thorough": {"counts": {"shutdown_ops_checked": 500000}, "keys": 80},
}


def setup_bounds(rng, g):
    cls = rng.choice(["none", "incl0", "excl0", "excl0"])
    b = {}
    if cls == "incl0":
        b["tool-power"] = (0, rng.choice([100, 1000, 24000]))
    elif cls == "excl0":
        b["tool-power"] = (rng.choice([1, 10, 0.5, 500]), rng.choice([1000, 24000]))
    if rng.random() < 0.4:
        b["feed-rate"] = (rng.choice([0, 10, 100]), 6000)
    if rng.random() < 0.3:
        b["tool-number"] = (1, 50)
    if rng.random() < 0.3:
        b["axes"] = ((-200, -200, -200), (200, 200, 200))
    for name in ("bed-temperature", "hotend-temperature", "chamber-temperature"):
        if rng.random() < 0.3:
            b[name] = (rng.choice([0, 20]), 300)
    for name, (lo, hi) in b.items():
        g.set_bounds(name, lo, hi)
    return cls, b


def _carries(comment, pieces):
    """every non-blank line of the message appears in the comment, in order"""
    at = 0
    for p in pieces:
        at = comment.find(p, at)
        if at < 0:
            return False
        at += len(p)
    return True


def run_case(ctx, col, case):
    rng = ctx.rng(case)
    s = Session(dp=rng.choice([2, 5]), comment=rng.choice([";", ";", "(", "#"]))
    g = s.g
    bcls, bounds = setup_bounds(rng, g)
    plo, phi = bounds.get("tool-power", (0, 24000))
    model = stateops.Model()
    log = []
    ncalls = ctx.params["calls"]
    checkpoints = set(rng.sample(range(ncalls), rng.randint(3, 6)))
    for i in range(ncalls):
        op = stateops.draw(rng)
        args, kw = op.args, dict(op.kwargs)
        # keep power values inside the configured tool-power range so the tool can start
        if op.name in ("tool_on", "power_on") and rng.random() < 0.9:
            args = (args[0], rng.choice([plo, phi, (plo + phi) / 2]))
        if "S" in kw and op.tag in ("move", "probe"):
            kw["S"] = rng.choice([plo, phi])
        outcome, exc, new, _ = s.call(op.name, *args, **kw)
        log.append(stateops.Op(op.name, args, kw).render() + [outcome])
        if outcome == "ok":
            op.apply(model)
        if i not in checkpoints:
            continue
        if rng.random() < 0.2:
            # reach the checkpoint through a call that was refused half-way (a wrongly typed temperature
            # word) followed at once by a start: whatever the refused call left pending must not get in
            # the way of switching things off
            for name, args, kw in (("halt", (rng.choice(["wait-for-hotend", "wait-for-bed"]),), {"S": "210"}),
                                   rng.choice([("coolant_on", ("flood",), {}), ("tool_on", ("cw", plo), {}),
                                               ("power_on", ("constant", phi), {})])):
                outcome, exc, new, _ = s.call(name, *args, **kw)
                log.append([name, list(args), kw, outcome])
            col.count("checkpoints_after_a_half_refused_call")
        st = g.state
        tool_api = "none"
        if st.is_tool_active:
            tool_api = model.tool_api or "?"
        for opname in ("tool_off", "power_off", "coolant_off", "emergency_halt"):
            fork = copy.deepcopy(g)
            rec = fork._writers[0]
            n0 = len(rec.payloads)
            reset = rng.random() < 0.5
            # the message may be empty, blank or span lines (str(exc) of an argument-less exception,
            # a traceback): the sequence must still be complete and the whole text carried
            msg = rng.choice(["door open", "limit switch", "E-STOP 42", "", " ", "limit switch\nZ axis",
                              "Traceback:\r\n  File x\r\nTimeoutError", "\nleading break", "x",
                              "Hotend at 285 °C", "Überhitzung – µ-switch",
                              # bare carriage returns (a controller's status line relayed as it came) and
                              # executable-looking text behind a break
                              "ALARM:2\rM03 S12000\r", "soft limit\rX axis", "a\n\rb", "stop\vM3 S1"])
            pieces = [p.strip() for p in msg.splitlines() if p.strip()]
            col.count("halt_message_class:" + ("empty" if not pieces else "multi-line" if len(pieces) > 1 else "plain"))
            col.count("shutdown_ops_checked")
            if st.is_tool_active:
                col.count("checked_with_tool_running")
            if st.is_coolant_active:
                col.count("checked_with_coolant_on")
            if bcls == "excl0":
                col.count("checked_bounds_exclude_zero")
            col.key(tool_api, st.is_tool_active, st.coolant_mode.value, bcls, opname)

            def bad(kind, mech=None, **detail):
                col.violation(kind, ctx.case_ref(case),
                              {"operation": opname, "bounds": bounds, "tool_active": st.is_tool_active,
                               "tool_api": tool_api, "tool_power": st.tool_power,
                               "coolant": st.coolant_mode.value, "history_tail": log[-6:], **detail},
                              mechanism=mech)

            try:
                if opname == "emergency_halt":
                    fork.emergency_halt(msg, reset)
                else:
                    getattr(fork, opname)()
            except Exception as e:  # any exception refutes "succeed"
                bad("shutdown-operation-raised", error=repr(e),
                    mech=f"c06:{opname}:raised:{type(e).__name__}:bounds-{bcls}")
                return
            try:
                lines = [ln for p in rec.payloads[n0:] for ln in s.lexer.parse_payload(p)]
            except LexError as e:
                bad("unparseable-output", error=str(e))
                return
            codes = [c for ln in lines for c in ln.codes()]
            fst = fork.state
            if opname in ("tool_off", "power_off"):
                want = ["M5"]
                flags_ok = not fst.is_tool_active
            elif opname == "coolant_off":
                want = ["M9"]
                flags_ok = not fst.is_coolant_active
            else:
                want = ["M5", "M9", "M30" if reset else "M0"]
                flags_ok = not fst.is_tool_active and not fst.is_coolant_active
            if codes != want:
                bad("wrong-shutdown-codes", emitted=[ln.raw for ln in lines], expected=want)
                return
            if opname == "emergency_halt":
                # order: M5, M9, comment line carrying the message, halt code
                kinds = []
                for ln in lines:
                    if ln.words:
                        kinds.append(ln.code())
                    elif ln.comment is not None and _carries(ln.comment, pieces):
                        kinds.append("MSG")
                if kinds != ["M5", "M9", "MSG", want[-1]]:
                    bad("emergency-sequence-out-of-order", emitted=[ln.raw for ln in lines], sequence=kinds)
                    return
            if not flags_ok:
                bad("still-reported-active-after-shutdown",
                    flags=[fst.is_tool_active, fst.is_coolant_active])
                return
    if case % 199 == 0:
        col.sample({"case": case, "bounds": bounds, "history": log[:10], "checkpoints": sorted(checkpoints)})


def run_shard(ctx, col):
    for case in ctx.cases():
        run_case(ctx, col, case)
        col.evaluations += 1
