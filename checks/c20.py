"""C20 Move hooks see the true move and extrusion matches path length.

Monitors
  * probe hooks registered before and after the bundled extrusion hook record
    every invocation (origin, target, params in / out);
  * the independent interpreter supplies, per emitted G1 line, the machine
    position before/after, the emitted words and an extruder-axis model
    (M82/M83, G92 E, absolute/relative E words);
  * oracle: one hook invocation per G1 (none per G0), hook (origin,target) ==
    machine (before,after), last hook's params == emitted words ==
    get_parameter afterwards, commanded filament == c * XY length.
"""

from __future__ import annotations

import math
from fractions import Fraction

from gscrib import ParamsDict
from gscrib.hooks.extrusion_hook import extrusion_hook

from harness import gen
from harness.common import CaseTimeout
from harness.session import Session

PROP = "C20"
LEVEL = "exploration"
TECHNIQUE = 'probe hooks around the bundled extrusion hook + interpreter positions and an extruder-axis model (M82/M83, G92 E)'
LEVEL_TEXT = 'Held on random move/rapid/bypass/tracer sequences with mode switches and E resets; one listed known finding.'
RULE = ("random sequences (20-35 steps) of moves, rapids, every tracer shape, distance-mode and "
        "extrusion-mode switches, set_axis(E=...) resets, move_hook() contexts (nested; hooks added / removed for good inside them) and permanently added "
        "hooks, with random layer/nozzle/filament geometry; distinct = (distance mode, extrusion mode, "
        "source operation, after-reset?, hooks registered)")
ASSUMPTIONS = [
    "no transform is active (with a transform the hook receives a transformed target: outside the stated quantifier)",
    "commanded filament of a G1 = E word (relative extrusion) or E word minus the interpreter's current E position (absolute extrusion)",
    "XY length is computed from the exact origin/target the hook received, after these were checked against the interpreter",
]
TIERS = {
    "quick": {"shards": 16, "cases": 800, "timeout": 300},
    "thorough": {"shards": 16, "cases": 32000, "timeout": 3000},
}
FLOORS = {
    "quick": {"counts": {"bound_method_hooks": 150, "hooks_registered_twice": 100, "g1_lines_checked": 60000, "hook_invocations_checked": 100000,
                         "extrusion_amounts_checked": 50000, "rapids_checked": 700,
                         "absolute_extrusion_moves": 15000, "relative_extrusion_moves": 15000,
                         "hooks_added_inside_context": 100, "hooks_removed_inside_context": 20,
                         "mid_history_hook_checks": 2000}, "keys": 20},
    "thorough": {"counts": {"g1_lines_checked": 2500000}, "keys": 20},
}


class Probe:
    def __init__(self, name, mutate):
        self.name = name
        self.calls = []
        self.mutate = mutate
        self.n = 0

    def __call__(self, origin, target, params, state):
        self.n += 1
        seen = dict(params)
        if self.mutate and self.n % 3 == 0:
            # a speed / power ramp: the hook decides the F and S words of this move
            params["F"] = float(600 + 10 * (self.n % 7))
            if self.n % 2 == 0:
                params["S"] = float(100 + self.n % 5)
        if self.mutate == "copy":
            # a hook may return a NEW mapping instead of mutating the one it was given
            params = ParamsDict({**params, "Q": float(self.n)})
        elif self.mutate:
            params.update(Q=float(self.n))
        self.calls.append((tuple(origin), tuple(target), seen, dict(params)))
        return params

    def as_method(self, origin, target, params, state):
        """The same hook as a bound method (a new object on every attribute access, equal by ==)."""
        return self(origin, target, params, state)


def run_case(ctx, col, case):
    rng = ctx.rng(case)
    dp = rng.choice([3, 5, 7])
    s = Session(dp=dp)
    g, m = s.g, s.m
    half = Fraction(1, 2 * 10 ** dp)
    layer, nozzle, fil = rng.uniform(0.05, 0.6), rng.uniform(0.2, 1.2), rng.choice([1.75, 2.85, 3.0])
    c = nozzle * layer / (math.pi * (fil / 2) ** 2)
    first = Probe("first", mutate=rng.choice([True, "copy", "copy"]))
    last = Probe("last", mutate=False)
    ext = extrusion_hook(layer, nozzle, fil)
    start = tuple(rng.uniform(-20, 20) for _ in range(3))
    g.set_axis(x=start[0], y=start[1], z=start[2])
    g.add_hook(first)
    g.add_hook(ext)
    # half of the histories register the last probe as a bound method, and half of those register it a
    # second time (a start-up profile applied twice): a hook is still called once per move
    if rng.random() < 0.5:
        g.add_hook(last.as_method)
        col.count("bound_method_hooks")
        if rng.random() < 0.5:
            g.add_hook(last.as_method)
            col.count("hooks_registered_twice")
    else:
        g.add_hook(last)
        if rng.random() < 0.3:
            g.add_hook(last)
            col.count("hooks_registered_twice")
    s.drain()
    # extruder axis model
    E = {"pos": Fraction(0), "mode": "M82", "since_reset": False, "tainted": False}
    log = []
    geometry = {"layer": layer, "nozzle": nozzle, "filament": fil, "c": c}

    def fail(kind, mech=None, **detail):
        col.violation(kind, ctx.case_ref(case), {"dp": dp, **geometry, "history_tail": log[-6:], **detail},
                      mechanism=mech)
        return False

    perms, retired = [], []     # probes added for good in mid-history / removed again

    def step(name, args, kw, source, expect_hooks=True):
        n_first, n_last = len(first.calls), len(last.calls)
        n_perm = [len(p.calls) for p in perms]
        n_retired = [len(p.calls) for p in retired]
        n_moves = len(m.moves)
        nlines0 = len(s.lines)
        prev_budget = dict(m.budget)
        try:
            with ctx.watchdog(30):
                outcome, exc, new, _ = s.call(name, *args, **kw)
        except CaseTimeout:
            col.inconclusive_case(f"case {case}: watchdog in {name}")
            return False
        except Exception as e:
            # every request of this workload is valid: a move that dies in a hook (or anywhere else) was
            # neither handed to the hooks once nor emitted with the filament it should carry
            log.append([name, _r(args), _r(kw), "raised"])
            return fail("valid-move-raised-an-unexpected-exception", error=repr(e), mech="c20:move-raised")
        log.append([name, _r(args), _r(kw), outcome])
        if s.lex_errors:
            return fail("unparseable-output", errors=str(s.lex_errors[:2]))
        if outcome != "ok":
            return fail("valid-call-rejected", error=repr(exc))
        lines = s.lines[nlines0:]
        moves = m.moves[n_moves:]
        g1 = [mv for mv in moves if mv[0] == "G1"]
        g0 = [mv for mv in moves if mv[0] == "G0"]
        fcalls, lcalls = first.calls[n_first:], last.calls[n_last:]
        col.count("rapids_checked", len(g0))
        if len(fcalls) != len(g1) or len(lcalls) != len(g1):
            return fail("hook-not-called-exactly-once-per-linear-move", g1_lines=len(g1), rapids=len(g0),
                        first_hook_calls=len(fcalls), last_hook_calls=len(lcalls),
                        mech="c20:hook-count:" + ("rapid" if g0 and not g1 else "move"))
        for p, n0 in zip(perms, n_perm):
            if len(p.calls) - n0 != len(g1):
                return fail("registered-hook-not-called-once-per-linear-move", hook=p.name, g1_lines=len(g1),
                            calls=len(p.calls) - n0, mech="c20:hook-count:registered-in-mid-history")
        for p, n0 in zip(retired, n_retired):
            if len(p.calls) != n0:
                return fail("removed-hook-still-called", hook=p.name, calls=len(p.calls) - n0,
                            mech="c20:hook-count:removed")
        col.count("mid_history_hook_checks", len(perms) + len(retired))
        rel_ext = None
        for mv, fc, lc in zip(g1, fcalls, lcalls):
            code, before, after, axes, others, budget = mv
            col.count("g1_lines_checked")
            for who, call in (("first", fc), ("last", lc)):
                col.count("hook_invocations_checked")
                origin, target = call[0], call[1]
                for i, a in enumerate("XYZ"):
                    tol = float(budget[a]) + float(half) + 1e-9 * max(1.0, abs(target[i] or 0))
                    tol_before = float(prev_budget[a]) + float(half) + 1e-9 * max(1.0, abs(origin[i] or 0))
                    if before[a] is not None and abs(float(before[a]) - (origin[i] or 0.0)) > tol_before:
                        return fail("hook-origin-is-not-the-true-origin", hook=who, axis=a,
                                    hook_origin=origin, machine_before={k: float(v) for k, v in before.items()},
                                    relative=g.distance_mode.is_relative, mech="c20:origin")
                    if after[a] is not None and abs(float(after[a]) - (target[i] or 0.0)) > tol:
                        return fail("hook-target-is-not-the-true-target", hook=who, axis=a,
                                    hook_target=target, machine_after={k: float(v) for k, v in after.items()},
                                    relative=g.distance_mode.is_relative, mech="c20:target")
            prev_budget = budget
            # params: what the last hook returned is what is emitted
            final = lc[3]
            for k, v in final.items():
                if k in ("X", "Y", "Z") or v is None:
                    continue
                if k not in others:
                    return fail("hook-parameter-not-emitted", param=k, value=v, emitted={a: float(b) for a, b in others.items()})
                if abs(others[k] - Fraction(v)) > half + Fraction(1e-9) * abs(Fraction(v)):
                    return fail("emitted-parameter-differs-from-hook-result", param=k, hook_value=v,
                                emitted=float(others[k]))
            if "Q" not in lc[2]:
                return fail("later-hook-did-not-receive-earlier-hooks-params", seen=sorted(lc[2]))
            # extrusion ---------------------------------------------------------
            o, t = lc[0], lc[1]
            length = math.hypot(t[0] - o[0], t[1] - o[1])
            want = c * length
            if "E" not in others:
                return fail("no-E-word-on-linear-move")
            eword = others["E"]
            col.count("extrusion_amounts_checked")
            pos_before = E["pos"]
            if E["mode"] == "M83":
                commanded = eword
                E["pos"] += eword
                col.count("relative_extrusion_moves")
            else:
                commanded = eword - E["pos"]
                E["pos"] = eword
                col.count("absolute_extrusion_moves")
            tol = float(half) * 2 + 1e-9 * max(1.0, abs(float(E["pos"])))
            base = E.get("last_param", 0.0)
            E["last_param"] = float(final.get("E"))
            if abs(float(commanded) - want) > tol:
                mech = None
                # known defect: in absolute mode the hook adds the last E *word* it remembers, which after
                # a relative-extrusion segment is a per-move amount, not the extruder position
                if E["mode"] == "M82" and E["tainted"] and abs(float(eword) - (base + want)) <= tol:
                    mech = "c20:absolute-extrusion-after-relative-segment-without-E-reset"
                return fail("commanded-filament-is-not-c-times-xy-length", extrusion_mode=E["mode"],
                            commanded=float(commanded), expected=want, xy_length=length,
                            e_word=float(eword), e_position_before=float(pos_before),
                            mech=mech)
            col.key("rel" if g.distance_mode.is_relative else "abs", E["mode"], source,
                    E["since_reset"], len(g._hooks))
        # remembered afterwards
        if g1:
            final = lcalls[-1][3]
            # ... F and S also by the state's own fields (what later commands and hooks rely on)
            for word, field in (("F", "feed_rate"), ("S", "tool_power")):
                if final.get(word) is not None:
                    col.count("hook_written_F_S_checked")
                    if float(getattr(g.state, field)) != float(final[word]):
                        return fail("state-field-differs-from-hook-written-word", word=word,
                                    hook_value=final[word], state_value=getattr(g.state, field),
                                    mech=f"c20:state.{field}")
            for k, v in final.items():
                if k in ("X", "Y", "Z") or v is None:
                    continue
                for who, getter in (("builder", g.get_parameter), ("state", g.state.get_parameter)):
                    if getter(k) != v:
                        return fail("get_parameter-differs-from-hook-result", who=who, param=k,
                                    remembered=getter(k), hook_value=v)
        return True

    for _ in range(rng.randint(20, 35)):
        r = rng.random()
        rel = g.distance_mode.is_relative
        if r < 0.40:
            kw = {a: (rng.uniform(-5, 5) if rel else rng.uniform(-30, 30)) for a in "xyz" if rng.random() < 0.6}
            if rng.random() < 0.3:
                kw["F"] = rng.choice([600, 1800])
            if not step("move", (), kw, "move"):
                return
        elif r < 0.46:
            kw = {a: (rng.uniform(-5, 5) if rel else rng.uniform(-30, 30)) for a in "xyz" if rng.random() < 0.6}
            if not step("rapid", (), kw, "rapid"):
                return
        elif r < 0.50:
            # absolute-bypass moves: absolute coordinates in either distance mode
            name = rng.choice(["move_absolute", "move_absolute", "rapid_absolute"])
            kw = {a: rng.uniform(-30, 30) for a in "xyz" if rng.random() < 0.6}
            if not step(name, (), kw, name):
                return
        elif r < 0.58:
            g.set_distance_mode(rng.choice(["absolute", "relative"]))
            s.drain()
        elif r < 0.68:
            mode = rng.choice(["absolute", "relative"])
            g.set_extrusion_mode(mode)
            s.drain()
            new_mode = "M82" if mode == "absolute" else "M83"
            if new_mode == "M82" and E["mode"] == "M83":
                # back to absolute: usual practice is to reset E; sometimes we do not
                if rng.random() < 0.75:
                    v = rng.choice([0, 0, 10.5])
                    g.set_axis(E=v)
                    s.drain()
                    E["pos"] = Fraction(v)
                    E["last_param"] = float(v)
                    E["tainted"] = False
                    E["since_reset"] = True
                    log.append(["set_axis", [], {"E": v}, "ok"])
                else:
                    E["tainted"] = True
            if new_mode == "M83":
                E["tainted"] = E["tainted"] or False
            E["mode"] = new_mode
            log.append(["set_extrusion_mode", [mode], {}, "ok"])
        elif r < 0.76:
            v = rng.choice([0, 0, 0, 3.25, 100])
            g.set_axis(E=v)
            s.drain()
            E["pos"] = Fraction(v)
            E["last_param"] = float(v)
            E["since_reset"] = True
            E["tainted"] = False
            log.append(["set_axis", [], {"E": v}, "ok"])
        elif r < 0.82:
            extra = Probe("temp", mutate=False)
            with g.move_hook(extra):
                # registrations made while a temporary hook is active are permanent ones: they must
                # survive the end of the context (and removals must not be undone by it)
                what = rng.choice(["none", "add", "add", "remove", "remove", "nested"])
                if what == "add" and len(perms) < 3:
                    p = Probe(f"perm{len(perms) + len(retired)}", mutate=False)
                    g.add_hook(p)
                    perms.append(p)
                    col.count("hooks_added_inside_context")
                elif what == "remove" and perms:
                    p = perms.pop(rng.randrange(len(perms)))
                    g.remove_hook(p)
                    retired.append(p)
                    col.count("hooks_removed_inside_context")
                kw = {a: (rng.uniform(-5, 5) if rel else rng.uniform(-30, 30)) for a in "xy"}
                if what == "nested":
                    inner = Probe("temp-inner", mutate=False)
                    with g.move_hook(inner):
                        ok = step("move", (), kw, "move_hook")
                    if ok and (len(inner.calls) != 1 or inner in g._hooks):
                        fail("nested-temporary-hook-not-called-once-or-not-removed", calls=len(inner.calls))
                        return
                    retired.append(inner)
                else:
                    ok = step("move", (), kw, "move_hook")
                if not ok:
                    return
            retired.append(extra)
            if len(extra.calls) != 1:
                fail("temporary-hook-not-called-once", calls=len(extra.calls))
                return
            if extra in g._hooks:
                fail("temporary-hook-not-removed")
                return
        else:
            pos = tuple(0.0 if v is None else v for v in g.position)
            scale = rng.choice([3.0, 12.0])
            g.set_resolution(scale / rng.choice([5, 12]))
            name, args, kw, meta = gen.shape_request(rng, pos, rel, scale=scale)
            col.count("shape:" + meta["kind"])
            if not step(name, args, kw, "trace"):
                return
        # in relative extrusion mode the E parameter remembered is a per-move amount:
        # an absolute segment that follows without a reset starts from it
        if E["mode"] == "M83":
            E["tainted"] = True
    if case % 199 == 0:
        col.sample({"case": case, **geometry, "history": log[:10], "emitted": [ln.raw for ln in s.lines[:10]]})


def _r(obj):
    if isinstance(obj, dict):
        return {k: _r(v) for k, v in obj.items()}
    if isinstance(obj, (list, tuple)):
        return [_r(v) for v in obj]
    if callable(obj):
        return "<fn>"
    return obj


def run_shard(ctx, col):
    for case in ctx.cases():
        run_case(ctx, col, case)
        col.evaluations += 1
