"""C12 Interpolation honours the configured resolution.

Monitor: segment lengths measured on the vertices the independent
interpreter reconstructs from the emitted G1 lines.
"""

from __future__ import annotations

import math

from harness import contracts, gen, shapes
from harness.common import CaseTimeout
from harness.session import Session

PROP = "C12"
LEVEL = "exploration"
TECHNIQUE = 'segment-length, count, halving-monotonicity and chord-error monitors on interpreter-reconstructed vertices; unit-switch rescaling check'
LEVEL_TEXT = 'Held for L/res over 10..4e3 (quick) / 3e4 (thorough) in both unit systems.'
RULE = ("constant-speed shapes (arc, arc_radius, circle, constant-radius helix/thread) with R >= 5*res "
        "and L >= 10*res, L/res log-uniform over 10..1e4 (quick) / 3e4 (thorough), in mm and inches; "
        "every shape (incl. spline/spiral/varying helix) is traced at res and res/2; unit switches "
        "rescale the resolution; distinct = (shape, floor(log10(L/res)), units, distance mode)")
ASSUMPTIONS = [
    "segment lengths are measured on interpreter-reconstructed vertices (dp=9)",
    "'about one resolution unit' = 1.05*res; 'about 0.9' = 0.88*res (pinned tree measures 0.899..0.962)",
    "chord-error bound = s_max^2/(8R) * 1.01",
    "helices are limited to 20 turns (the 500-sample length estimate aliases far above that)",
]
TIERS = {
    "quick": {"shards": 16, "cases": 320, "max_ratio": 4e3, "timeout": 400},
    "thorough": {"shards": 16, "cases": 1600, "max_ratio": 3e4, "timeout": 3400},
}
FLOORS = {
    "quick": {"counts": {"requests_far_from_the_origin": 15, "segments_measured": 100000, "requests_after_other_shapes_on_the_same_builder": 40, "constant_speed_shapes": 150,
                         "halving_comparisons": 250, "unit_switch_checks": 300, "steep_ramps_to_zero": 15}, "keys": 40},
    "thorough": {"counts": {"segments_measured": 3000000, "constant_speed_shapes": 800}, "keys": 60},
}
MM_PER_IN = 25.4


def trace(rng_state, rng, kind, o, relative, sign, res, units, build, prelude=None, scale=1.0):
    """Trace one request on a fresh builder; returns (outcome, vertices, meta, session).
    prelude: seed of one to three other shapes traced first by the SAME builder (other kinds, sizes and
    resolutions): what a tracer did before must not influence how it samples the request under test."""
    import random
    rng.setstate(rng_state)
    s = Session(dp=9)
    g = s.g
    if prelude is not None:
        pr = random.Random(prelude)
        g.set_axis(x=o[0], y=o[1], z=o[2])
        for _ in range(pr.randint(1, 3)):
            sc = scale * pr.choice([0.3, 1.0, 3.0])
            g.set_resolution(sc / pr.choice([5, 20, 60]))
            here = tuple(0.0 if v is None else v for v in g.position)
            nm, a, k, _m = gen.shape_request(pr, here, False, scale=sc,
                                             kinds=["spiral", "spline", "helix", "arc", "circle", "polyline"])
            s.call(nm, *a, **k)
    if units == "in":
        # resolution given in mm, rescaled by the unit switch itself
        g.set_resolution(res * MM_PER_IN)
        g.set_length_units("in")
    else:
        g.set_resolution(res)
    g.set_axis(x=o[0], y=o[1], z=o[2])
    g.set_direction("cw" if sign < 0 else "ccw")
    if relative:
        g.set_distance_mode("relative")
    s.drain()
    name, args, kw, meta = build(rng)
    n0 = len(s.m.moves)
    outcome, exc, new, _ = s.call(name, *args, **kw)
    verts = shapes.vertices_from_moves(s.m.moves[n0:], o)
    return outcome, exc, verts, meta, s


def run_case(ctx, col, case):
    rng = ctx.rng(case)
    contracts.install_filter_contract()
    relative = rng.random() < 0.4
    sign = rng.choice([-1, 1])
    units = rng.choice(["mm", "mm", "in"])
    o = (rng.uniform(-30, 30), rng.uniform(-30, 30), rng.uniform(-5, 5))
    if rng.random() < 0.15:
        # far from the origin: the sampling works on differences of large absolute coordinates
        o = (rng.choice([-1, 1]) * rng.uniform(1000, 4000), rng.choice([-1, 1]) * rng.uniform(1000, 4000), o[2])
        col.count("requests_far_from_the_origin")
    const = rng.random() < 0.7
    if const:
        kind = rng.choice(["arc", "arc_radius", "circle", "helix_const", "thread"])
    else:
        kind = rng.choice(["spline", "spiral", "helix", "polyline_skip"])
        if kind == "polyline_skip":
            kind = "spline"
    scale = rng.choice([1.0, 10.0, 100.0])
    # steep ramps onto (or just across) Z = 0 from a start well away from it: the Z travel then
    # dominates the curve length while the absolute target Z is small
    ramp = kind in ("arc", "arc_radius") and rng.random() < 0.4
    if ramp:
        o = (o[0], o[1], rng.choice([-1, 1]) * rng.uniform(0.5, 3.0) * scale)
        col.count("steep_ramps_to_zero")
    max_ratio = ctx.params["max_ratio"]
    ratio = 10 ** rng.uniform(1.0, math.log10(max_ratio))

    def build(r):
        if kind == "helix_const":
            nm, args, kw, meta = gen.shape_request(r, o, relative, scale=scale, kinds=["arc"])
            # same geometry, extra full turns, always with z
            turns = r.choice([1, 2, 5, 12, 20])
            t = meta["target_abs"]
            tz = o[2] + r.uniform(0.1, 1.0) * scale
            tgt = (t[0], t[1], tz)
            target = (tgt[0] - o[0], tgt[1] - o[1], tgt[2] - o[2]) if relative else tgt
            meta = dict(meta, kind="helix_const", turns=turns, target_abs=tgt, with_z=True)
            return "trace.helix", (target, meta["center"], turns), {}, meta
        nm, args, kw, meta = gen.shape_request(r, o, relative, scale=scale, kinds=[kind])
        if ramp:
            t = meta["target_abs"]
            t = (t[0], t[1], r.choice([0.0, -o[2] * r.uniform(0.05, 0.4)]))
            meta = dict(meta, target_abs=t, with_z=True)
            args = (gen._tgt(o, t, relative, True),) + tuple(args[1:])
        return nm, args, kw, meta

    # first pass with a throw-away resolution to learn the geometry (length)
    state = rng.getstate()
    probe_rng = ctx.rng(case, "probe")
    probe_rng.setstate(state)
    _, _, _, meta = build(probe_rng)
    L, R = path_length(meta, o, sign)
    if L is None:
        res = scale / rng.choice([10, 40])
    else:
        res = L / ratio
        if R is not None and R < 5 * res:
            res = R / 5
        ratio = L / res
    prelude = rng.randrange(1 << 30) if rng.random() < 0.4 else None
    if prelude is not None:
        col.count("requests_after_other_shapes_on_the_same_builder")
    req = {"shape": kind, "start": o, "relative": relative, "direction": sign, "units": units, "prelude_seed": prelude,
           "resolution": res, "length": L, "radius": R, "scale": scale}
    try:
        with ctx.watchdog(ctx.params.get("case_timeout", 120)):
            out1 = trace(state, rng, kind, o, relative, sign, res, units, build, prelude, scale)
            out2 = trace(state, rng, kind, o, relative, sign, res / 2, units, build, prelude, scale)
    except CaseTimeout:
        col.inconclusive_case(f"case {case}: watchdog {req}")
        return
    except contracts.ContractBroken as e:
        col.violation("filter-contract", ctx.case_ref(case), {"request": req, "witness": e.args[1]})
        return
    outcome, exc, verts, meta, s1 = out1
    outcome2, exc2, verts2, _, s2 = out2
    if outcome != "ok" or outcome2 != "ok":
        col.violation("valid-request-rejected", ctx.case_ref(case), {"request": req, "errors": [repr(exc), repr(exc2)]})
        return
    col.count("shapes_traced", 2)
    # --- halving the resolution never yields fewer segments -------------
    col.count("halving_comparisons")
    if len(verts2) < len(verts):
        col.violation("halving-resolution-fewer-segments", ctx.case_ref(case),
                      {"request": req, "n_res": len(verts), "n_half": len(verts2)},
                      mechanism="c12:halving")
        return
    if not const or L is None:
        col.key(kind, "any", units, "rel" if relative else "abs")
        return
    # --- constant-speed metrics ------------------------------------------
    for res_i, vs in ((res, verts), (res / 2, verts2)):
        lens = shapes.seglens(o, vs)
        n = len(lens)
        col.count("segments_measured", n)
        if n < 3:
            continue
        tol = 1e-8 * max(1.0, scale) + (n * 1e-9 if relative else 2e-9)
        worst_long = max(lens)
        if worst_long > 1.05 * res_i + tol:
            i = lens.index(worst_long)
            col.violation("segment-longer-than-resolution", ctx.case_ref(case),
                          {"request": req, "resolution_used": res_i, "index": i, "n": n,
                           "length": worst_long, "ratio": worst_long / res_i},
                          mechanism="c12:too-long")
            return
        interior = lens[1:-1]
        worst_short = min(interior)
        if worst_short < 0.88 * res_i - tol:
            i = 1 + interior.index(worst_short)
            col.violation("interior-segment-shorter-than-0.88-resolution", ctx.case_ref(case),
                          {"request": req, "resolution_used": res_i, "index": i, "n": n,
                           "length": worst_short, "ratio": worst_short / res_i},
                          mechanism="c12:too-short")
            return
        lo, hi = L / (1.05 * res_i), L / (0.88 * res_i) + 2
        if not (lo - 1 <= n <= hi):
            col.violation("segment-count-not-proportional", ctx.case_ref(case),
                          {"request": req, "resolution_used": res_i, "n": n, "expected_range": [lo, hi]},
                          mechanism="c12:count")
            return
        # chord error: midpoint sagitta bound
        c = center_of(meta, o, sign)
        if c is not None and R:
            pts = [o] + vs
            smax = max(math.hypot(b[0] - a[0], b[1] - a[1]) for a, b in zip(pts, pts[1:]))
            bound = smax * smax / (8 * R) * 1.01 + tol
            for a, b in zip(pts, pts[1:]):
                mid = ((a[0] + b[0]) / 2, (a[1] + b[1]) / 2)
                sag = R - math.hypot(mid[0] - c[0], mid[1] - c[1])
                col.count("chord_error_checks")
                if sag > bound or sag < -tol:
                    col.violation("chord-error-exceeds-bound", ctx.case_ref(case),
                                  {"request": req, "sagitta": sag, "bound": bound},
                                  mechanism="c12:chord")
                    return
        col.count("min_interior_ratio_x1000_sum", int(1000 * worst_short / res_i))
        col.count("max_ratio_x1000_sum", int(1000 * worst_long / res_i))
    col.count("constant_speed_shapes")
    col.key(kind, int(math.floor(math.log10(ratio))), units, "rel" if relative else "abs")
    if case % 37 == 0:
        lens = shapes.seglens(o, verts)
        col.sample({"case": case, "request": req, "n_segments": len(lens),
                    "first_last": [lens[0], lens[-1]],
                    "interior_min_max_over_res": [min(lens[1:-1]) / res, max(lens[1:-1]) / res] if len(lens) > 2 else None,
                    "n_segments_half_res": len(verts2)})


def center_of(meta, o, sign):
    kind = meta["kind"]
    if kind in ("arc", "circle", "helix_const"):
        return (o[0] + meta["center"][0], o[1] + meta["center"][1])
    if kind == "thread":
        t = meta["target_abs"]
        return ((o[0] + t[0]) / 2, (o[1] + t[1]) / 2)
    if kind == "arc_radius":
        t = meta["target_abs"]
        for c in shapes.arc_radius_centers(o, t, abs(meta["radius"])):
            a0 = math.atan2(o[1] - c[1], o[0] - c[0])
            a1 = math.atan2(t[1] - c[1], t[0] - c[0])
            total = shapes.directed_sweep(a0, a1, sign)
            if (abs(total) < math.pi) == (meta["radius"] > 0):
                return c
    return None


def path_length(meta, o, sign):
    """(length, radius) for constant-speed shapes, from the request alone."""
    kind = meta["kind"]
    c = center_of(meta, o, sign)
    if c is None:
        return None, None
    R = math.hypot(o[0] - c[0], o[1] - c[1])
    if kind == "circle":
        return 2 * math.pi * R, R
    t = meta["target_abs"]
    a0 = math.atan2(o[1] - c[1], o[0] - c[0])
    a1 = math.atan2(t[1] - c[1], t[0] - c[0])
    height = (t[2] - o[2]) if meta.get("with_z") else 0.0
    if kind == "thread":
        turns = max(1, int(abs(t[2] - o[2]) / meta["pitch"]))
        total = math.pi * (2 * turns - 1)
        height = t[2] - o[2]
    else:
        total = abs(shapes.directed_sweep(a0, a1, sign))
        if kind == "helix_const":
            total += 2 * math.pi * (meta["turns"] - 1)
    return math.hypot(R * total, height), R


def unit_switch_case(ctx, col, case):
    rng = ctx.rng(case, "units")
    s = Session(dp=5)
    g = s.g
    res = 10 ** rng.uniform(-3, 1)
    g.set_resolution(res)
    hist = [("set_resolution", res)]
    units = "mm"
    expected = res
    for _ in range(rng.randint(1, 6)):
        new = rng.choice(["mm", "in", "millimeters", "inches"])
        g.set_length_units(new)
        new_short = "mm" if new.startswith("m") else "in"
        if new_short != units:
            expected = expected / MM_PER_IN if new_short == "in" else expected * MM_PER_IN
            units = new_short
        hist.append(("set_length_units", new))
        col.count("unit_switch_checks")
        got = g.state.resolution
        if abs(got - expected) > 1e-12 * expected:
            col.violation("resolution-not-rescaled-on-unit-switch", ctx.case_ref(case),
                          {"history": hist, "resolution": got, "expected": expected},
                          mechanism="c12:units")
            return
    if units == "mm" and abs(g.state.resolution - res) > 1e-12 * res:
        col.violation("unit-round-trip-does-not-restore-resolution", ctx.case_ref(case),
                      {"history": hist, "resolution": g.state.resolution, "expected": res})
    col.key("units", len(hist))


def run_shard(ctx, col):
    for case in ctx.cases():
        run_case(ctx, col, case)
        unit_switch_case(ctx, col, case)
        col.evaluations += 1
