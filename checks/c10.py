"""C10 Interpolated paths follow the requested curve and end on target.

Monitor: vertices are reconstructed from the emitted G1 lines by the
independent interpreter (decimal_places=9, so output rounding is negligible)
and compared with closed-form geometry recomputed from the request.  An
icontract postcondition on PathTracer._filter_segments checks that filtering
only drops samples and always keeps the first and the last one.
"""

from __future__ import annotations

import math

from harness import contracts, gen, shapes
from harness.common import CaseTimeout
from harness.session import Session

PROP = "C10"
LEVEL = "exploration"
TECHNIQUE = 'closed-form geometry oracle on interpreter-reconstructed vertices + icontract postcondition on PathTracer._filter_segments'
LEVEL_TEXT = 'Held on constructively valid requests for all nine shapes, both directions and distance modes, three resolution decades.'
RULE = ("one valid tracer request per case, built constructively (arc/arc_radius/circle/spline/"
        "helix/thread/spiral/polyline/parametric), random start incl. non-origin XY and Z, both "
        "directions, both distance modes, resolutions over three decades; non-trivial = request "
        "accepted and >= 3 vertices emitted; distinct = (shape, direction, distance mode, start at "
        "XY origin?, sweep class, resolution decade, with_z)")
ASSUMPTIONS = [
    "vertices come from harness.interp fed by the recorded output, decimal_places=9",
    "tolerance 1e-7*scale + accumulated output rounding",
    "angle tests are skipped where the radius is below 1e-6*scale",
    "requests are kept inside the documented domain: radius >= 1.05*chord/2, sweep in (0.05, 2pi-0.05) plus a class of very short sweeps 1e-7..1e-3 rad (and their complements, almost full turns), turns <= 5, min radius >= 3 resolutions (spirals: end radius >= 10*turns*resolution)",
]
TIERS = {
    "quick": {"shards": 16, "cases": 1600, "timeout": 300},
    "thorough": {"shards": 16, "cases": 60000, "timeout": 3000},
}
FLOORS = {
    "quick": {"counts": {"shapes_checked": 1200, "tiny_or_almost_full_sweeps": 12, "vertices_checked": 50000,
                         "filter_contract_evals": 1000}, "keys": 150},
    "thorough": {"counts": {"shapes_checked": 30000, "filter_contract_evals": 25000}, "keys": 300},
}
KINDS = ["arc", "arc_radius", "circle", "spline", "helix", "thread", "spiral", "polyline", "parametric"]


def classify(kind, shape, relative, start_at_origin):
    """Known-finding classifier: by mechanism only."""
    return None


def run_case(ctx, col, case):
    rng = ctx.rng(case)
    contracts.install_filter_contract()
    relative = rng.random() < 0.5
    sign = rng.choice([-1, 1])
    scale = rng.choice([2.0, 20.0, 200.0])
    start_class = rng.choice(["origin", "xy", "xyz", "far"])
    if start_class == "origin":
        o = (0.0, 0.0, rng.choice([0.0, 3.5]))
    elif start_class == "far":
        o = (rng.uniform(-5000, 5000), rng.uniform(-5000, 5000), rng.uniform(-50, 50))
    else:
        o = (rng.uniform(-2, 2) * scale, rng.uniform(-2, 2) * scale,
             rng.uniform(-1, 1) * scale if start_class == "xyz" else 0.0)
    s = Session(dp=9)
    g = s.g
    g.set_axis(x=o[0], y=o[1], z=o[2])
    # the builder's own start (exact floats it tracks)
    o = tuple(float(v) for v in g.position)
    g.set_direction("cw" if sign < 0 else "ccw")
    if relative:
        g.set_distance_mode("relative")
    s.drain()
    kind = KINDS[case % len(KINDS)] if rng.random() < 0.7 else rng.choice(KINDS)
    name, args, kw, meta = gen.shape_request(rng, o, relative, scale=scale, kinds=[kind], tiny_sweeps=True)
    if meta.get("tiny_sweep"):
        col.count("tiny_or_almost_full_sweeps")
    kind = meta["kind"]
    # resolution inside the documented domain for the shape
    res = scale / rng.choice([8, 20, 60])
    if kind in ("helix", "spiral", "thread"):
        turns = meta.get("turns", 1)
        t = meta["target_abs"]
        if kind == "spiral":
            r_end = math.hypot(t[0] - o[0], t[1] - o[1])
            res = min(res, r_end / (10 * turns))
        elif kind == "helix":
            c = (o[0] + meta["center"][0], o[1] + meta["center"][1])
            rmin = min(math.hypot(o[0] - c[0], o[1] - c[1]), math.hypot(t[0] - c[0], t[1] - c[1]))
            res = min(res, rmin / 3)
        else:
            res = min(res, math.hypot(t[0] - o[0], t[1] - o[1]) / 6)
    g.set_resolution(res)
    n0 = len(s.m.moves)
    req = {"shape": kind, "start": o, "relative": relative, "direction": sign,
           "resolution": res, "args": _render(args), "scale": scale}
    try:
        with ctx.watchdog(ctx.params.get("case_timeout", 30)):
            outcome, exc, new, _ = s.call(name, *args, **kw)
    except CaseTimeout:
        col.inconclusive_case(f"case {case}: watchdog in {kind} {req}")
        return
    except contracts.ContractBroken as e:
        col.violation("filter-contract", ctx.case_ref(case), {"request": req, "witness": e.args[1]})
        return
    col.count("filter_contract_evals", contracts.EVALS["tracer.filter_segments"])
    contracts.EVALS["tracer.filter_segments"] = 0
    if s.lex_errors:
        col.violation("unparseable-output", ctx.case_ref(case), {"request": req, "errors": str(s.lex_errors[:2])})
        return
    if outcome == "rejected":
        col.violation("valid-request-rejected", ctx.case_ref(case),
                      {"request": req, "error": repr(exc)},
                      mechanism=f"c10:{kind}:rejected:{'rel' if relative else 'abs'}:"
                                f"{'origin' if start_class == 'origin' else 'nonorigin'}")
        return
    moves = s.m.moves[n0:]
    verts = shapes.vertices_from_moves(moves, o)
    if any(mv[0] != "G1" for mv in moves):
        col.violation("non-G1-segment", ctx.case_ref(case), {"request": req})
        return
    nsteps = len(verts)
    tol = 1e-7 * max(1.0, scale) + (nsteps + 2) * 0.5e-9 * (2 if relative else 1) \
        + 1e-12 * max(abs(c) for c in o)
    v = shapes.Verdict()
    oracle(v, kind, meta, o, verts, res, sign, tol, scale)
    col.count("shapes_checked")
    col.count("vertices_checked", nsteps)
    col.count("shape:" + kind)
    if nsteps >= 3:
        sweep = v.facts.get("sweep")
        sweep_class = "na" if sweep is None else ("<pi" if abs(sweep) < math.pi else
                                                  "<2pi" if abs(sweep) < 2 * math.pi - 1e-6 else ">=2pi")
        col.key(kind, "cw" if sign < 0 else "ccw", "rel" if relative else "abs", start_class,
                sweep_class, int(math.floor(math.log10(res))), meta.get("with_z"))
    for kind_bad, detail in v.problems[:1]:
        col.violation(kind_bad, ctx.case_ref(case),
                      {"request": req, "n_vertices": nsteps, "first_vertices": verts[:3],
                       "last_vertex": verts[-1] if verts else None, **_render(detail)},
                      mechanism=f"c10:{kind}:{kind_bad}")
    if case % 211 == 0:
        col.sample({"case": case, "request": req, "n_vertices": nsteps,
                    "first_vertices": verts[:3], "last_vertex": verts[-1] if verts else None,
                    "verdict": "ok" if v.ok else v.problems[0][0]})


def oracle(v, kind, meta, o, verts, res, sign, tol, scale):
    eps_r = 1e-6 * scale
    if kind == "polyline":
        pts = meta["points_abs"]
        if len(verts) != len(pts):
            v.bad("polyline-vertex-count", got=len(verts), want=len(pts))
            return
        for i, (a, b) in enumerate(zip(verts, pts)):
            if math.dist(a, b) > tol:
                v.bad("polyline-vertex-differs", index=i, got=a, want=b)
                return
        return
    if kind == "spline":
        pts = meta["points_abs"]
        shapes.check_ends(v, o, pts[-1], verts, res, tol)
        if not v.ok:
            return
        poly = [o] + verts
        last_pos = -1.0
        for k, cp in enumerate(pts):
            best, best_pos = float("inf"), None
            for i in range(len(poly) - 1):
                d, t = shapes.dist_point_segment(cp, poly[i], poly[i + 1])
                if d < best - 1e-12:
                    best, best_pos = d, i + t
            if best > res + tol:
                v.bad("spline-misses-control-point", control=k, distance=best, resolution=res)
                return
            # in order: search again restricted to positions >= last_pos
            ok_after = False
            for i in range(max(0, int(last_pos)), len(poly) - 1):
                d, t = shapes.dist_point_segment(cp, poly[i], poly[i + 1])
                if d <= res + tol and i + t >= last_pos - 1e-9:
                    last_pos = i + t
                    ok_after = True
                    break
            if not ok_after:
                v.bad("spline-control-points-out-of-order", control=k)
                return
        return
    if kind == "parametric":
        shapes.check_ends(v, o, meta["target_abs"], verts, res, tol)
        return

    # circular family ------------------------------------------------
    if kind in ("arc", "circle", "helix"):
        c = (o[0] + meta["center"][0], o[1] + meta["center"][1])
    if kind == "circle":
        t = o
    else:
        t = meta["target_abs"]
    shapes.check_ends(v, o, t, verts, res, tol)
    if not v.ok:
        return
    height = t[2] - o[2] if meta.get("with_z") else 0.0
    if kind in ("arc", "circle"):
        r = math.hypot(o[0] - c[0], o[1] - c[1])
        a0 = math.atan2(o[1] - c[1], o[0] - c[0])
        a1 = math.atan2(t[1] - c[1], t[0] - c[0])
        total = sign * 2 * math.pi if kind == "circle" else shapes.directed_sweep(a0, a1, sign)
        shapes.check_helical(v, o, verts, c, r, r, total, o[2], height, sign, tol, eps_r)
    elif kind == "arc_radius":
        radius = meta["radius"]
        cands = shapes.arc_radius_centers(o, t, abs(radius))
        best = None
        for c in cands:
            a0 = math.atan2(o[1] - c[1], o[0] - c[0])
            a1 = math.atan2(t[1] - c[1], t[0] - c[0])
            total = shapes.directed_sweep(a0, a1, sign)
            minor = abs(total) < math.pi
            if minor == (radius > 0):
                best = (c, total)
        if best is None:
            v.skipped.append("no-candidate")
            return
        c, total = best
        shapes.check_helical(v, o, verts, c, abs(radius), abs(radius), total, o[2], height, sign, tol, eps_r)
    elif kind in ("helix", "spiral", "thread"):
        if kind == "spiral":
            c = (o[0], o[1])
            turns = meta["turns"]
        elif kind == "thread":
            c = ((o[0] + t[0]) / 2, (o[1] + t[1]) / 2)
            turns = max(1, int(abs(t[2] - o[2]) / meta["pitch"]))
            height = t[2] - o[2]
        else:
            turns = meta["turns"]
        r0 = math.hypot(o[0] - c[0], o[1] - c[1])
        r1 = math.hypot(t[0] - c[0], t[1] - c[1])
        a1 = math.atan2(t[1] - c[1], t[0] - c[0])
        if r0 > eps_r:
            a0 = math.atan2(o[1] - c[1], o[0] - c[0])
            if kind == "thread":
                base = sign * math.pi
            else:
                base = shapes.directed_sweep(a0, a1, sign)
        else:
            # start on the centre: the start angle is conventional (0)
            base = shapes.directed_sweep(0.0, a1, sign)
        total = base + sign * 2 * math.pi * (turns - 1)
        shapes.check_helical(v, o, verts, c, r0, r1, total, o[2], height, sign, tol, eps_r)


def _render(obj):
    if isinstance(obj, dict):
        return {k: _render(x) for k, x in obj.items()}
    if isinstance(obj, (list, tuple)):
        return [_render(x) for x in obj]
    if callable(obj):
        return "<fn>"
    if isinstance(obj, float):
        return obj if math.isfinite(obj) else repr(obj)
    return obj


def run_shard(ctx, col):
    for case in ctx.cases():
        run_case(ctx, col, case)
        col.evaluations += 1
