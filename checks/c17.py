"""C17 Socket input is split into lines independently of packet boundaries.

Monitor: a 5-line reference splitter over the concatenated byte stream is
compared with the non-empty results of successive Device.readline() calls on
a real printrun Device whose socket file / selector are scripted (every
fragmentation, 'no data yet' anywhere), plus a real loopback TCP peer.
"""

from __future__ import annotations

import itertools
import socket
import threading
import time

from gscrib.printrun.device import Device, READ_EOF

PROP = "C17"
LEVEL = "fault_enumeration"
TECHNIQUE = 'reference line splitter vs Device.readline() on a scripted socket file/selector; exhaustive enumeration of streams x fragmentations x gap behaviours; real loopback TCP peer'
LEVEL_TEXT = 'Complete for all streams over {a,LF,CR} up to length 5 (quick) / 7 (thorough) with every fragmentation and 3 behaviours per gap; random 4 KiB streams and real TCP in addition.'
RULE = ("(a) exhaustive: every byte stream over {a, LF, CR} up to length N, every fragmentation into "
        "chunks, and at every gap (before each chunk and before end-of-stream) one of {nothing, 'no data "
        "yet' + select timeout, 'no data yet' + select ready}; (b) random streams up to 4 KiB, chunk sizes "
        "1..256, random gaps; (c) a real loopback TCP peer sending fragments with TCP_NODELAY and pauses "
        "and then closing; distinct = distinct (stream, fragmentation, gap pattern) scripts")
ASSUMPTIONS = [
    "reference: lines = stream cut after each LF, plus the unterminated tail when the peer closes",
    "the scripted socket file returns None for 'no data yet' and b'' at end of stream, like a non-blocking SocketIO",
]
TIERS = {
    "quick": {"shards": 16, "cases": 16, "exhaustive_len": 5, "random_scripts": 1500, "tcp_cases": 4, "timeout": 300},
    "thorough": {"shards": 16, "cases": 16, "exhaustive_len": 7, "random_scripts": 60000, "tcp_cases": 40, "timeout": 3000},
}
FLOORS = {
    "quick": {"counts": {"scripts_exhaustive": 610770, "scripts_random": 20000, "tcp_streams": 50,
                         "lines_compared": 300000}, "keys": 610770},
    "thorough": {"counts": {"scripts_exhaustive": 87950802, "scripts_random": 900000, "tcp_streams": 600}, "keys": 87950802},
}
EXHAUSTIVE = {"quick": "all streams over {a,LF,CR} with length <= 5 x all fragmentations x 3 gap behaviours per gap",
              "thorough": "all streams over {a,LF,CR} with length <= 7 x all fragmentations x 3 gap behaviours per gap"}
GAPS = ("", "t", "r")     # nothing / None + select timeout / None + select ready


class ScriptFile:
    def __init__(self, items, selector):
        self.items = list(items)
        self.i = 0
        self.selector = selector
        self.reads = 0

    def read(self, n):
        self.reads += 1
        if self.i >= len(self.items):
            return b""
        kind, data = self.items[self.i]
        self.i += 1
        if kind == "data":
            assert len(data) <= n
            return data
        self.selector.ready = (kind == "none_ready")
        return None

    def close(self):
        pass


class ScriptSelector:
    def __init__(self):
        self.ready = False
        self.calls = 0

    def select(self, timeout=None):
        self.calls += 1
        r, self.ready = self.ready, False
        return [1] if r else []

    def unregister(self, *_):
        pass

    def close(self):
        pass


def reference(stream):
    out, start = [], 0
    while True:
        i = stream.find(b"\n", start)
        if i < 0:
            break
        out.append(stream[start:i + 1])
        start = i + 1
    if start < len(stream):
        out.append(stream[start:])
    return out


def run_script(items, max_calls):
    sel = ScriptSelector()
    d = Device()
    d._type = "socket"
    d._device = object()
    d._is_connected = True
    d._selector = sel
    d._socketfile = ScriptFile(items, sel)
    d._timeout = 0
    got = []
    for _ in range(max_calls):
        r = d.readline()
        if r is READ_EOF:
            return got, True, d
        if r:
            got.append(bytes(r))
    return got, False, d


def check(col, ctx, case, stream, chunks, gaps, kind):
    items = []
    for g, c in zip(gaps, chunks):
        if g == "t":
            items.append(("none_timeout", None))
        elif g == "r":
            items.append(("none_ready", None))
        items.append(("data", c))
    g = gaps[len(chunks)]
    if g == "t":
        items.append(("none_timeout", None))
    elif g == "r":
        items.append(("none_ready", None))
    want = reference(stream)
    got, eof, d = run_script(items, max_calls=3 * len(items) + len(want) + 8)
    col.count("lines_compared", len(want))
    if got != want or not eof:
        script = [(k, (v.decode("latin1") if v else None)) for k, v in items]
        what = "end-of-stream-never-reported" if got == want else (
            "bytes-lost-duplicated-or-reordered" if b"".join(got) != stream else "wrong-line-boundaries")
        col.violation(what, ctx.case_ref(case),
                      {"part": kind, "stream": stream.decode("latin1"), "script": script[:40],
                       "got": [g.decode("latin1") for g in got[:20]],
                       "want": [w.decode("latin1") for w in want[:20]], "eof_reported": eof},
                      mechanism=f"c17:{what}")
        return False
    if d._is_connected:
        col.violation("still-connected-after-eof", ctx.case_ref(case), {"part": kind, "stream": stream.decode("latin1")})
        return False
    return True


def compositions(n):
    """All ways to cut a sequence of length n into consecutive chunks."""
    if n == 0:
        yield ()
        return
    for mask in range(1 << (n - 1)):
        cuts, start = [], 0
        for i in range(n - 1):
            if mask >> i & 1:
                cuts.append((start, i + 1))
                start = i + 1
        cuts.append((start, n))
        yield tuple(cuts)


def exhaustive(ctx, col, case, maxlen):
    """Shard `case` of the exhaustive space (streams are dealt round-robin)."""
    idx = 0
    for n in range(0, maxlen + 1):
        for stream_t in itertools.product(b"a\n\r", repeat=n):
            idx += 1
            if idx % ctx.params["cases"] != case:
                continue
            stream = bytes(stream_t)
            for cuts in compositions(n):
                chunks = [stream[a:b] for a, b in cuts]
                for gaps in itertools.product(GAPS, repeat=len(chunks) + 1):
                    col.count("scripts_exhaustive")
                    col.distinct()
                    if not check(col, ctx, case, stream, chunks, gaps, "exhaustive"):
                        return False
    return True


def random_scripts(ctx, col, case, rng, n):
    for k in range(n):
        size = rng.choice([rng.randint(0, 12), rng.randint(0, 200), rng.randint(200, 4096)])
        alphabet = rng.choice([b"ok\n", b"ab\n\r", bytes(range(256)), b"T:210.5 /210 B:60\nok\n"])
        stream = bytes(rng.choice(alphabet) for _ in range(size))
        chunks, pos = [], 0
        while pos < len(stream):
            step = rng.choice([1, 2, 3, rng.randint(1, 256), 256])
            chunks.append(stream[pos:pos + step])
            pos += step
        p_gap = rng.choice([0.0, 0.2, 0.6])
        gaps = tuple(rng.choice(["t", "r"]) if rng.random() < p_gap else "" for _ in range(len(chunks) + 1))
        col.count("scripts_random")
        if k % 7 == 0:
            col.key("rnd", case, k)
        if not check(col, ctx, case, stream, chunks, gaps, "random"):
            return False
    return True


def tcp_cases(ctx, col, case, rng, n):
    """Real loopback peer: fragments with TCP_NODELAY and pauses, then close."""
    for k in range(n):
        size = rng.choice([rng.randint(0, 30), rng.randint(30, 1500)])
        stream = bytes(rng.choice(b"ok T:1.5\n\rxyz") for _ in range(size))
        frags, pos = [], 0
        while pos < len(stream):
            step = rng.randint(1, 300)
            frags.append(stream[pos:pos + step])
            pos += step
        srv = socket.socket(socket.AF_INET, socket.SOCK_STREAM)
        srv.bind(("127.0.0.1", 0))
        srv.listen(1)
        port = srv.getsockname()[1]
        pauses = [rng.choice([0, 0, 0.001, 0.02, 0.3]) for _ in frags]

        def serve():
            conn, _ = srv.accept()
            conn.setsockopt(socket.IPPROTO_TCP, socket.TCP_NODELAY, 1)
            for f, p in zip(frags, pauses):
                conn.sendall(f)
                if p:
                    time.sleep(p)
            time.sleep(rng.choice([0, 0.05]))
            conn.close()
            srv.close()

        t = threading.Thread(target=serve, daemon=True)
        t.start()
        d = Device()
        d.connect(f"127.0.0.1:{port}", 0)
        got, eof = [], False
        deadline = time.monotonic() + 20
        while time.monotonic() < deadline:
            r = d.readline()
            if r is READ_EOF:
                eof = True
                break
            if r:
                got.append(bytes(r))
        d.disconnect()
        t.join(5)
        col.count("tcp_streams")
        want = reference(stream)
        col.count("lines_compared", len(want))
        if not eof:
            col.inconclusive_case(f"case {case}: tcp watchdog (no EOF within 20 s)")
            continue
        if got != want:
            col.violation("tcp-lines-differ", ctx.case_ref(case),
                          {"stream": stream.decode("latin1"), "fragments": [len(f) for f in frags],
                           "pauses": pauses, "got": [g.decode("latin1") for g in got[:20]],
                           "want": [w.decode("latin1") for w in want[:20]]},
                          mechanism="c17:tcp")
            return False
        col.key("tcp", case, k)
    return True


def run_shard(ctx, col):
    for case in ctx.cases():
        rng = ctx.rng(case)
        per = ctx.params["random_scripts"]
        ok = exhaustive(ctx, col, case, ctx.params["exhaustive_len"])
        ok = ok and random_scripts(ctx, col, case, rng, per)
        ok = ok and tcp_cases(ctx, col, case, rng, ctx.params["tcp_cases"])
        col.evaluations += 1
        if case == 0:
            col.sample({"stream": "a\\nb", "chunks": ["a", "\\n", "b"], "gaps": ["-", "t", "r", "-"],
                        "expected_lines": ["a\\n", "b"]})
