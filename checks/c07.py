"""C07 Reported machine state mirrors the emitted program.

Monitor: the modal interpreter (harness.interp) derives tool / coolant /
tool number / feed / modes / units / plane / temperatures / move parameters
from the lines that reached the recording writer; after EVERY call the
public properties of builder.state are compared with it.
"""

from __future__ import annotations

from fractions import Fraction

from harness import stateops
from harness.session import Session

PROP = "C07"
LEVEL = "exploration"
TECHNIQUE = 'modal interpreter over emitted lines vs public GState properties after every call'
LEVEL_TEXT = 'Held on random full-API histories with grid + random arguments; every field is compared after every call.'
RULE = ("random full-API histories (50-70 calls, numeric arguments from a finite grid plus random "
        "values, S/F words on moves while the tool runs, F via probe, temperatures via halt(S=/R=), "
        "power_on after tool_off, unit switches; every other history under user bounds that cut through the grids, so "
        "that calls are rejected by a bound in mid-history); every state field compared after every call; "
        "distinct = (field, operation after which the field's wire value changed)")
ASSUMPTIONS = [
    "harness.interp modal semantics (S on bare-S/M3/M4/G0/G1/G38 lines is tool power; S/R on M109/M190/M191 and S on M104/M140/M141 are temperatures)",
    "tool power is compared while the tool runs or right after a call that emitted an S word",
    "not demanded: power_mode/spin_mode left non-OFF by the other API's off call; tool_power==0 after M5; X/Y/Z entries of get_parameter (requested values, C01)",
    "numeric tolerance: 1/2 unit of the last decimal place",
]
TIERS = {
    "quick": {"shards": 16, "cases": 640, "calls": 60, "timeout": 300},
    "thorough": {"shards": 16, "cases": 120000, "calls": 70, "timeout": 3000},
}
FLOORS = {
    "quick": {"counts": {"field_comparisons": 400000, "power_comparisons": 8000,
                         "parameter_comparisons": 20000, "calls_rejected_under_bounds": 1000}, "keys": 30},
    "thorough": {"counts": {"field_comparisons": 20000000}, "keys": 35},
}
SPIN_CODE = {"clockwise": "M3", "counter": "M4"}
POWER_CODE = {"constant": "M3", "dynamic": "M4"}
COOLANT_CODE = {"off": None, "mist": "M7", "flood": "M8"}
DIST = {"absolute": False, "relative": True}
EXTR = {"absolute": "M82", "relative": "M83"}
FEEDM = {"units/min": "G94", "units/rev": "G95", "1/time": "G93"}
UNITS = {"millimeters": "G21", "inches": "G20"}
PLANE = {"xy": "G17", "zx": "G18", "yz": "G19"}


def wire_view(m):
    return {
        "tool_on": m.tool_on, "tool_code": m.tool_code, "power": m.power, "coolant": m.coolant,
        "tool_number": m.tool_number, "feed": m.feed, "relative": m.relative,
        "extrusion": m.extrusion, "feed_mode": m.feed_mode, "units": m.units, "plane": m.plane,
        "bed": m.temps["bed"], "hotend": m.temps["hotend"], "chamber": m.temps["chamber"],
    }


def run_case(ctx, col, case):
    rng = ctx.rng(case)
    dp = rng.choice([0, 2, 5])
    s = Session(dp=dp)
    st, m = s.g.state, s.m
    half = Fraction(1, 2 * 10 ** dp)
    # half of the histories run under user bounds that cut through the argument grids: calls are then
    # rejected by a bound after other words of the same call were already examined
    bounds = stateops.random_bounds(rng, s.g) if case % 2 else {}
    if bounds:
        col.count("histories_with_bounds")
    log = []
    prev = wire_view(m)
    prev_params = {}

    def close(a, b):
        # a: python number reported by the state, b: Fraction from the wire
        return abs(Fraction(a) - b) <= half

    for _ in range(ctx.params["calls"]):
        op = stateops.draw(rng)
        outcome, exc, new, _ = s.call(op.name, *op.args, **op.kwargs)
        col.count("calls")
        if bounds and outcome == "rejected" and "out of bounds" in str(exc):
            col.count("calls_rejected_under_bounds")
        log.append(op.render() + [outcome])
        if s.lex_errors:
            col.violation("unparseable-output", ctx.case_ref(case), {"errors": str(s.lex_errors[:2])})
            return
        emitted_S = any(ln.get("S") is not None and (not ln.codes() or ln.code() in
                        ("M3", "M4", "G0", "G1", "G38.2", "G38.3", "G38.4", "G38.5")) for ln in new)
        problems = []

        def cmp(field, reported, wire, ok):
            col.count("field_comparisons")
            if not ok:
                problems.append({"field": field, "state_reports": reported, "wire_says": wire})

        cmp("is_tool_active", st.is_tool_active, m.tool_on, st.is_tool_active == m.tool_on)
        if m.tool_on:
            codes = {SPIN_CODE.get(st.spin_mode.value), POWER_CODE.get(st.power_mode.value)}
            cmp("tool start code", [st.spin_mode.value, st.power_mode.value], m.tool_code, m.tool_code in codes)
        if (m.tool_on or emitted_S) and m.power is not None:
            col.count("power_comparisons")
            cmp("tool_power", st.tool_power, float(m.power), close(st.tool_power, m.power))
        cmp("coolant_mode", st.coolant_mode.value, m.coolant, COOLANT_CODE[st.coolant_mode.value] == m.coolant)
        cmp("is_coolant_active", st.is_coolant_active, m.coolant, st.is_coolant_active == (m.coolant is not None))
        wn = 0 if m.tool_number is None else m.tool_number
        cmp("tool_number", st.tool_number, float(wn), Fraction(st.tool_number) == wn)
        wf = Fraction(0) if m.feed is None else m.feed
        cmp("feed_rate", st.feed_rate, float(wf), close(st.feed_rate, wf))
        cmp("distance_mode", st.distance_mode.value, m.relative, DIST[st.distance_mode.value] == m.relative)
        cmp("builder.distance_mode", s.g.distance_mode.value, m.relative, DIST[s.g.distance_mode.value] == m.relative)
        cmp("extrusion_mode", st.extrusion_mode.value, m.extrusion, EXTR[st.extrusion_mode.value] == m.extrusion)
        cmp("feed_mode", st.feed_mode.value, m.feed_mode, FEEDM[st.feed_mode.value] == m.feed_mode)
        cmp("length_units", st.length_units.value, m.units, UNITS[st.length_units.value] == m.units)
        cmp("plane", st.plane.value, m.plane, PLANE[st.plane.value] == m.plane)
        for name, rep in (("bed", st.target_bed_temperature), ("hotend", st.target_hotend_temperature),
                          ("chamber", st.target_chamber_temperature)):
            w = m.temps[name]
            if w is None:
                cmp(f"target_{name}_temperature", rep, None, rep == float("-inf"))
            else:
                cmp(f"target_{name}_temperature", rep, float(w), rep != float("-inf") and close(rep, w))
        for k, w in m.params.items():
            col.count("parameter_comparisons")
            for who, getter in (("builder", s.g.get_parameter), ("state", st.get_parameter)):
                rep = getter(k)
                cmp(f"{who}.get_parameter({k})", rep, float(w),
                    isinstance(rep, (int, float)) and close(rep, w))
        if problems:
            col.violation("state-differs-from-wire", ctx.case_ref(case),
                          {"dp": dp, "bounds": bounds, "after": op.render(), "outcome": outcome, "problems": problems[:4],
                           "history_tail": log[-8:], "last_lines": [ln.raw for ln in s.lines[-6:]]},
                          mechanism="c07:" + problems[0]["field"].split("(")[0])
            return
        # which fields changed on the wire with this call -> distinct keys
        now = wire_view(m)
        for f, v in now.items():
            if v != prev[f]:
                col.key(f, op.tag)
        for k, v in m.params.items():
            if prev_params.get(k) != v:
                col.key("param:" + k, op.tag)
        prev, prev_params = now, dict(m.params)
    if case % 173 == 0:
        col.sample({"case": case, "dp": dp, "history": log[:12],
                    "emitted": [ln.raw for ln in s.lines[:12]],
                    "final_wire_view": {k: (float(v) if isinstance(v, Fraction) else v) for k, v in wire_view(m).items()}})


def run_shard(ctx, col):
    for case in ctx.cases():
        run_case(ctx, col, case)
        col.evaluations += 1
