"""C09 Comment text can never change what the machine executes.

Monitor: differential execution on two fresh builders -- one receives the
hostile text, the other an innocuous text -- followed by an independent
comment stripper for the configured style (harness.wire.Lexer): the number of
lines and the executable words of every line must be identical.
"""

from __future__ import annotations

from gscrib import GCodeBuilder, GCodeCore

from harness.session import REJECTIONS, Session
from harness.wire import LexError

PROP = "C09"
LEVEL = "exploration"
TECHNIQUE = 'differential execution (hostile vs innocuous text) + independent comment stripper per style'
LEVEL_TEXT = 'Held on hostile text classes x 9 comment styles x all text entry points.'
RULE = ("hostile texts (LF, CR, CRLF, VT/FF/NEL/LS/PS, every opening and closing delimiter, the configured "
        "delimiter itself, G-code payloads, %, {} format fields, non-ASCII, blank, long) x 9 comment styles (a third of them reached through run-time switches of the style) "
        "x entry points comment(msg,*args) / annotate / comment= of move, rapid, move_absolute, "
        "rapid_absolute, set_axis, auto_home, probe / emergency_halt(message); distinct = (hostile class, "
        "style, entry point)")
ASSUMPTIONS = [
    "a controller breaks lines at CR and LF; end-of-line comment styles run to the end of the line, bracketed ones to the first closing symbol",
    "the '{' comment style is excluded (every comment raises in str.format: crash, not injection)",
]
TIERS = {
    "quick": {"shards": 16, "cases": 6000, "timeout": 300},
    "thorough": {"shards": 16, "cases": 1000000, "timeout": 3000},
}
FLOORS = {
    "quick": {"counts": {"differential_pairs": 5500, "lines_compared": 8000, "hostile_linebreak": 1000,
                         "hostile_delimiter": 1000, "runtime_style_switches": 1500}, "keys": 900},
    "thorough": {"counts": {"differential_pairs": 190000}, "keys": 1500},
}
STYLES = [";", "(", "[", "<", '"', "'", "/*", "#", "//"]
CLOSERS = [")", "]", "}", ">", '"', "'", "*/"]
OPENERS = ["(", "[", "{", "<", "/*", ";", "#", "//"]
PAYLOADS = ["G1 X100", "M3 S9999", "G0 Z-50", "M112", "G28", "T5 M6"]
ENTRIES = ["comment", "comment+args", "annotate", "move", "rapid", "move_absolute", "rapid_absolute",
           "set_axis", "auto_home", "probe", "emergency_halt"]


def hostile(rng, style):
    from harness.wire import BRACKETS
    closing = BRACKETS.get(style)
    cls = rng.choice(["lf", "cr", "crlf", "unicode-break", "closer", "own-closer", "own-opener",
                      "opener", "payload", "percent", "format-field", "non-ascii", "blank", "long",
                      "lf+closer", "trailing-break", "nested-closer", "nested-closer", "split-closer",
                      "closer-run", "unencodable", "compat-lookalike", "compat-lookalike"])
    pay = rng.choice(PAYLOADS)
    if cls == "lf":
        t = f"hello\n{pay}"
    elif cls == "cr":
        t = f"hello\r{pay}"
    elif cls == "crlf":
        t = f"hello\r\n{pay}\r\nbye"
    elif cls == "unicode-break":
        t = "a" + rng.choice(["\v", "\f", "\x85", " ", " ", "\x1c"]) + pay
    elif cls == "closer":
        t = f"a {rng.choice(CLOSERS)} {pay}"
    elif cls == "own-closer":
        t = f"a {closing or style} {pay}"
    elif cls == "own-opener":
        t = f"a {style} b {pay}"
    elif cls == "opener":
        t = f"a {rng.choice(OPENERS)} {pay}"
    elif cls == "payload":
        t = pay
    elif cls == "percent":
        t = rng.choice(["100% done", "%s %d", "%(x)s"])
    elif cls == "format-field":
        t = rng.choice(["{}", "{0}", "{x}", "}{", "{{}}", "{0!r:>10}"])
    elif cls == "non-ascii":
        t = rng.choice(["añadir capa", "層 3", "ø5 drill ✓", " nbsp"])
    elif cls == "blank":
        t = rng.choice(["", " ", "\t", "   "])
    elif cls == "long":
        t = "x" * rng.choice([300, 5000]) + " " + pay
    elif cls == "nested-closer":
        # the closing symbol nested inside itself: deleting the inner one re-creates it
        c = closing or rng.choice(CLOSERS)
        nested = c
        for _ in range(rng.randint(1, 3)):
            k = rng.randint(0, len(nested))
            nested = nested[:k] + c + nested[k:]
        t = f"a {nested} {pay}"
    elif cls == "split-closer":
        # a line break (or blank) in the middle of the closing symbol
        c = closing or "*/"
        k = max(1, len(c) // 2)
        t = f"a {c[:k]}{rng.choice(['\n', '\r', ' ', '\t', ''])}{c[k:]} {pay}"
    elif cls == "unencodable":
        # lone surrogates (os.fsdecode of a non-UTF-8 file name, json "\\ud800") cannot be encoded: whatever
        # the writer does with them, they must not help the text out of the comment (e.g. by vanishing
        # from the middle of a split closing symbol or line break)
        c = closing or "*/"
        k = max(1, len(c) // 2)
        sur = rng.choice(["\udcff", "\ud800", "\udcff\udc80"])
        t = rng.choice([f"a {c[:k]}{sur}{c[k:]} {pay}", f"a {sur}{c} {pay}", f"name{sur}.nc\n{pay}"])
    elif cls == "compat-lookalike":
        # characters that Unicode normalisation / case folding / "ASCII clean-up" maps onto the closing
        # symbol, a line break or the comment opener: full-width and small forms, parenthesised digits,
        # the Greek question mark (NFC -> ';'), line/paragraph separators
        c = closing or rng.choice(CLOSERS)
        wide = "".join(chr(ord(ch) + 0xFEE0) if 0x21 <= ord(ch) <= 0x7E else ch for ch in c)
        small = {")": "\ufe5a", "]": "\uff3d", ">": "\ufe65", ";": "\ufe54", "(": "\ufe59"}
        alt = "".join(small.get(ch, chr(ord(ch) + 0xFEE0) if 0x21 <= ord(ch) <= 0x7E else ch) for ch in c)
        t = rng.choice([f"a {wide} {pay}", f"a {alt} {pay}", f"step \u2474 of 3 {pay}", f"a \u037e {pay}",
                        f"a\u2028{pay}", f"a\u2029{pay}", f"a \uff1b {wide} {pay} {wide}"])
    elif cls == "closer-run":
        c = closing or rng.choice(CLOSERS)
        t = "a " + c * rng.randint(2, 5) + " " + pay + " " + c
    elif cls == "lf+closer":
        t = f"a {closing or ')'}\n{pay}"
    else:
        t = f"text{rng.choice(['\n', '\r\n', '\r'])}"
    return t, cls


def run_entry(s, entry, text):
    g = s.g
    if entry == "comment":
        g.comment(text)
    elif entry == "comment+args":
        g.comment("note", text, 42)
    elif entry == "annotate":
        g.annotate("material", text)
    elif entry in ("move", "rapid", "move_absolute", "rapid_absolute"):
        getattr(g, entry)(x=1.5, y=2, comment=text)
    elif entry == "set_axis":
        g.set_axis(x=0, comment=text)
    elif entry == "auto_home":
        g.auto_home(x=0, comment=text)
    elif entry == "probe":
        g.probe("towards", z=-5, comment=text)
    elif entry == "emergency_halt":
        g.emergency_halt(text)
    g.move(x=3)   # whatever follows must be unaffected as well


def executable_view(s):
    """[(line index, executable tokens)] of everything written so far."""
    out = []
    for p in s.rec.payloads:
        for text in s.lexer.split_payload(p):
            out.append(s.lexer.strip_executable(text))
    return out


def run_case(ctx, col, case):
    rng = ctx.rng(case)
    style = STYLES[case % len(STYLES)]
    entry = ENTRIES[(case // len(STYLES)) % len(ENTRIES)]
    le = rng.choice(["\n", "\r\n"])
    text, cls = hostile(rng, style)
    # the bare GCodeCore has its own comment()/annotate()/move paths: use it for the entry points it offers
    core_ok = entry in ("comment", "comment+args", "annotate", "move", "rapid", "move_absolute", "rapid_absolute")
    bcls = GCodeCore if (core_ok and rng.random() < 0.25) else GCodeBuilder
    if bcls is GCodeCore:
        col.count("core_only_pairs")
    A = Session(comment=style, le=le, interpret=False, builder_cls=bcls)
    B = Session(comment=style, le=le, interpret=False, builder_cls=bcls)
    innocuous = "ok" if text.strip() else text
    # the comment style may also be (re)configured at run time: go through one or two other styles and
    # come back to the one under test (both builders alike), so that anything derived from the symbols
    # has to follow every switch
    if rng.random() < 0.35:
        detour = [rng.choice(STYLES) for _ in range(rng.choice([1, 2]))]
        for s in (A, B):
            for d in detour + [style]:
                s.g.format.set_comment_symbols(d)
        col.count("runtime_style_switches")
        switched = True
    else:
        switched = False
    res = []
    for s, t in ((A, text), (B, innocuous)):
        try:
            run_entry(s, entry, t)
            res.append("ok")
        except REJECTIONS as e:
            res.append(type(e).__name__)
        except Exception as e:
            # refused in some other way (e.g. text that cannot be encoded): still a refusal, judged below
            res.append("raised:" + type(e).__name__)
    col.count("differential_pairs")
    if cls in ("lf", "cr", "crlf", "lf+closer", "trailing-break"):
        col.count("hostile_linebreak")
    if cls in ("closer", "own-closer", "own-opener", "opener", "lf+closer", "nested-closer",
               "split-closer", "closer-run"):
        col.count("hostile_delimiter")
    col.key(cls, style, entry)
    detail = {"style": style, "entry": entry, "text": text, "class": cls, "line_ending": le,
              "style_switched_at_run_time": switched}
    if res[0] != res[1]:
        if res[0] != "ok" and res[1] == "ok":
            # refusing a hostile text outright is not an injection; note it
            col.note(f"hostile text rejected with {res[0]}")
            return
        col.violation("outcome-differs", ctx.case_ref(case), {**detail, "outcomes": res})
        return
    try:
        va, vb = executable_view(A), executable_view(B)
    except LexError as e:
        col.violation("unterminated-payload", ctx.case_ref(case), {**detail, "error": str(e)})
        return
    col.count("lines_compared", len(vb))
    if len(va) != len(vb):
        col.violation("number-of-lines-changed", ctx.case_ref(case),
                      {**detail, "lines_hostile": len(va), "lines_innocuous": len(vb),
                       "output": [p.decode("utf-8", "replace") for p in A.rec.payloads]},
                      mechanism=f"c09:line-count:{'bracket' if A.lexer.closing else 'eol'}")
        return
    for i, (a, b) in enumerate(zip(va, vb)):
        if a != b:
            col.violation("executable-words-changed", ctx.case_ref(case),
                          {**detail, "line": i, "hostile": a, "innocuous": b,
                           "output": [p.decode("utf-8", "replace") for p in A.rec.payloads]},
                          mechanism=f"c09:words:{'bracket' if A.lexer.closing else 'eol'}")
            return
    if case % 997 == 0:
        col.sample({"case": case, **detail, "output": [p.decode("utf-8", "replace") for p in A.rec.payloads]})


def run_shard(ctx, col):
    for case in ctx.cases():
        run_case(ctx, col, case)
        col.evaluations += 1
