"""C03 Configured bounds are never exceeded by an emitted command.

Monitors
  (a) wire monitor: every emitted line is lexed independently; F/S/T and
      temperature words and the target of every G0/G1/G38.x line (in the
      builder's own coordinates) are compared with the configured limits;
  (b) BoundsPredictor: exact IEEE evaluation of the request decides whether a
      call is inside every limit (boundary values included) -- such a call,
      if otherwise valid, must not raise ValueError, and a call outside must;
  (c) icontract postcondition on BoundManager.validate: normal return implies
      min <= value <= max for every known coordinate (NaN never passes).
"""

from __future__ import annotations

import math
from fractions import Fraction

from harness import contracts, gen
from harness.common import CaseTimeout
from harness.session import Session

PROP = "C03"
LEVEL = "exploration"
TECHNIQUE = 'wire monitor on F/S/T/temperature words and motion targets + exact IEEE bounds predictor + icontract postcondition on BoundManager.validate'
LEVEL_TEXT = 'Held on random bounds configurations and boundary-value calls (min, max, +-1 ulp, 0, NaN, inf). Exploration over an unbounded input space.'
RULE = ("random bounds configurations (any subset of the seven properties, random min<max, "
        "re-configured mid-history) followed by 40-60 commands that carry a bounded quantity, values "
        "drawn from {min, max, nextafter(min,-inf), nextafter(max,+inf), inside, far outside, NaN, "
        "+-inf, -0.0}; moves/rapids/bypass/probes in both distance modes with partially known "
        "positions, tracer shapes bulging out of the box; every fourth history with a move hook that rewrites F/S of linear moves "
        "with boundary-class values; distinct = (bounded property, value class, "
        "operation, outcome)")
ASSUMPTIONS = [
    "motion targets are evaluated in the builder's own coordinates (position reported before the call, unknown axes = 0)",
    "slack: 1/2 unit of the last decimal place per word (accumulated over consecutive relative words)",
    "G92/G28 words are not motion targets; no F/S words are generated on them",
]
TIERS = {
    "quick": {"shards": 16, "cases": 800, "calls": 45, "timeout": 300},
    "thorough": {"shards": 16, "cases": 60000, "calls": 60, "timeout": 3000},
}
FLOORS = {
    "quick": {"counts": {"words_checked": 4000, "modal_switches": 800, "motion_targets_checked": 15000,
                         "boundary_value_calls": 4000, "validate_contract_evals": 50000,
                         "rejected_out_of_bounds": 4000, "hook_rewrote_word": 300}, "keys": 150},
    "thorough": {"counts": {"words_checked": 600000, "motion_targets_checked": 600000}, "keys": 200},
}
NAN, INF = float("nan"), float("inf")
TEMP = {"bed-temperature": ("set_bed_temperature", "wait-for-bed", "M140", "M190"),
        "hotend-temperature": ("set_hotend_temperature", "wait-for-hotend", "M104", "M109"),
        "chamber-temperature": ("set_chamber_temperature", "wait-for-chamber", "M141", "M191")}
TEMP_CODES = {c: k for k, v in TEMP.items() for c in v[2:]}
PROBES = ("G38.2", "G38.3", "G38.4", "G38.5")


def draw_bounds(rng, axes_too=True):
    b = {}
    if axes_too and rng.random() < 0.7:
        lo = tuple(rng.choice([-100.0, -10.5, 0.0, 0.1, -1e-3]) for _ in range(3))
        hi = tuple(l + rng.choice([0.5, 20.0, 250.0, 1e-2]) for l in lo)
        b["axes"] = (lo, hi)
    if rng.random() < 0.6:
        lo = rng.choice([0, 0.0, 1, 10, 100.5])
        b["feed-rate"] = (lo, lo + rng.choice([1, 500, 5900.25]))
    if rng.random() < 0.6:
        lo = rng.choice([0, 0.0, 1, 10])
        b["tool-power"] = (lo, lo + rng.choice([1, 90, 23990.5]))
    if rng.random() < 0.5:
        lo = rng.choice([1, 2, 5])
        b["tool-number"] = (lo, lo + rng.choice([1, 10, 94]))
    for name in TEMP:
        if rng.random() < 0.4:
            lo = rng.choice([-20, 0, 0.5, 20])
            b[name] = (lo, lo + rng.choice([10, 100.5, 280]))
    return b


def value_class(rng, lo, hi, integer=False):
    """(value, class)"""
    cls = rng.choice(["below", "min", "inside", "max", "above", "far-below", "far-above",
                      "nan", "inf", "min", "max", "inside", "inside", "min", "max", "inside", "zero"])
    if cls == "zero":
        # falsy values: 0, 0.0, -0.0 (inside or outside depending on the range)
        v = 0 if integer else rng.choice([0, 0.0, -0.0])
        return v, "zero:" + ("inside" if lo <= 0 <= hi else "outside")
    if integer:
        v = {"below": lo - 1, "min": lo, "inside": (lo + hi) // 2, "max": hi, "above": hi + 1,
             "far-below": lo - 100, "far-above": hi + 1000, "nan": hi + 1, "inf": lo - 1}[cls]
        if cls in ("nan", "inf"):
            cls = "above" if cls == "nan" else "below"
        return int(v), cls
    v = {"below": math.nextafter(lo, -INF), "min": lo, "inside": lo + (hi - lo) * rng.random(),
         "max": hi, "above": math.nextafter(hi, INF), "far-below": lo - 1e4, "far-above": hi + 1e6,
         "nan": NAN, "inf": rng.choice([INF, -INF])}[cls]
    return v, cls


def run_case(ctx, col, case):
    rng = ctx.rng(case)
    contracts.install_validate_contract()
    dp = rng.choice([2, 3, 5])
    s = Session(dp=dp)
    g = s.g
    half = Fraction(1, 2 * 10 ** dp)
    bounds = {}
    log = []

    def configure():
        new = draw_bounds(rng)
        for name, (lo, hi) in new.items():
            g.set_bounds(name, lo, hi)
            bounds[name] = (lo, hi)
        log.append(["set_bounds", dict(new)])
        # usually (re)start somewhere inside the box, sometimes partially unknown
        if "axes" in new and rng.random() < 0.85:
            lo, hi = bounds["axes"]
            p_known = rng.choice([1.0, 1.0, 0.7])
            try:
                g.set_axis(**{a: l + (h - l) * rng.random() for a, l, h in zip("xyz", lo, hi)
                              if rng.random() < p_known})
            except ValueError:
                pass    # an axis left outside by the old position

    configure()
    if rng.random() < 0.4:
        g.set_distance_mode("relative")
    # half of the histories run under non-default modal settings (the limits are plain numbers: no
    # feed mode, unit system, plane or extrusion mode suspends them)
    if rng.random() < 0.5:
        modal_switches(rng, g, col, rng.randint(1, 4))
    s.drain()

    # every fourth history registers a move hook that rewrites the F or S word of some linear moves with a
    # boundary-class value: what a hook returns is what gets emitted, so it must pass the same bounds
    hooked = {"fired": False}
    if case % 4 == 3:
        hrng = ctx.rng(case, "hook")

        def rewriting_hook(origin, target, params, state):
            if hrng.random() < 0.5:
                word, prop, default = hrng.choice([("F", "feed-rate", (0, 6000)), ("S", "tool-power", (0, 24000))])
                lo, hi = bounds.get(prop, default)
                params[word] = value_class(hrng, lo, hi)[0]
                hooked["fired"] = True
                col.count("hook_rewrote_word")
            return params
        g.add_hook(rewriting_hook)

    def fail(kind, mech=None, **detail):
        col.violation(kind, ctx.case_ref(case),
                      {"dp": dp, "bounds": _jb(bounds), "history_tail": log[-6:], **detail}, mechanism=mech)
        return False

    def check_lines(new, start_pos, start_rel):
        """(a) wire monitor on the lines emitted by one call."""
        # builder's own coordinates; None = unknown to the builder
        cur = [None if v is None else Fraction(v) for v in start_pos]
        slack = [half] * 3
        rel = start_rel
        for ln in new:
            codes = ln.codes()
            code = codes[0] if codes else None
            others = s.m.other_words(ln)
            axes = s.m.axis_words(ln)
            if code == "G90":
                rel = False
            elif code == "G91":
                rel = True
            # F ----------------------------------------------------------------
            if "F" in others and "feed-rate" in bounds:
                col.count("words_checked")
                lo, hi = bounds["feed-rate"]
                if not (Fraction(lo) - half <= others["F"] <= Fraction(hi) + half):
                    return fail("F-word-outside-feed-bounds", line=ln.raw)
            # S: tool power context or temperature -----------------------------------------
            if "S" in others or "R" in others:
                if code in TEMP_CODES:
                    name = TEMP_CODES[code]
                    if name in bounds:
                        lo, hi = bounds[name]
                        for k in ("S", "R"):
                            if k in others:
                                col.count("words_checked")
                                if not (Fraction(lo) - half <= others[k] <= Fraction(hi) + half):
                                    return fail("temperature-word-outside-bounds", line=ln.raw, property=name)
                elif "S" in others and (code is None or code in ("M3", "M4", "G0", "G1") or code in PROBES) \
                        and "tool-power" in bounds:
                    col.count("words_checked")
                    lo, hi = bounds["tool-power"]
                    if not (Fraction(lo) - half <= others["S"] <= Fraction(hi) + half):
                        return fail("S-word-outside-tool-power-bounds", line=ln.raw)
            if "T" in others and "M6" in codes and "tool-number" in bounds:
                col.count("words_checked")
                lo, hi = bounds["tool-number"]
                if not (lo <= others["T"] <= hi):
                    return fail("T-word-outside-tool-number-bounds", line=ln.raw)
            # motion target in the builder's own coordinates ---------------------------------------
            if code in ("G0", "G1") or code in PROBES:
                tgt = list(cur)
                for i, a in enumerate("XYZ"):
                    if a in axes:
                        if rel:
                            # the builder counts an unknown axis as 0 in relative moves
                            tgt[i] = (cur[i] if cur[i] is not None else 0) + axes[a]
                            slack[i] += half
                        else:
                            tgt[i] = axes[a]
                            slack[i] = half
                if "axes" in bounds:
                    lo, hi = bounds["axes"]
                    for i, a in enumerate("XYZ"):
                        if tgt[i] is None:
                            continue    # unknown to the builder and not mentioned
                        col.count("motion_targets_checked")
                        fl = 4 * Fraction(math.ulp(max(abs(lo[i]), abs(hi[i]), abs(float(tgt[i])), 1.0)))
                        if not (Fraction(lo[i]) - slack[i] - fl <= tgt[i] <= Fraction(hi[i]) + slack[i] + fl):
                            return fail("motion-target-outside-axes-bounds", line=ln.raw, axis=a,
                                        target=float(tgt[i]), box=[lo[i], hi[i]], code=code,
                                        mech=f"c03:{'probe' if code in PROBES else 'move'}:target-outside-box")
                if code in ("G0", "G1"):
                    cur = tgt
        return True

    for _ in range(ctx.params["calls"]):
        if rng.random() < 0.05:
            configure()
            continue
        if rng.random() < 0.04:
            modal_switches(rng, g, col, 1)
            s.drain()
            continue
        start_pos = tuple(g.position)
        start_rel = g.distance_mode.is_relative
        name, args, kw, prop, cls, expect_inside, motion = draw_call(rng, g, bounds, start_pos, start_rel)
        n_evals = contracts.EVALS["bounds.validate"]
        hooked["fired"] = False
        try:
            with ctx.watchdog(20):
                outcome, exc, new, _ = s.call(name, *args, **kw)
        except CaseTimeout:
            col.inconclusive_case(f"case {case}: watchdog in {name}")
            return
        except contracts.ContractBroken as e:
            fail("validate-contract", witness=e.args[1], call=_jc(name, args, kw))
            return
        col.count("validate_contract_evals", contracts.EVALS["bounds.validate"] - n_evals)
        log.append(_jc(name, args, kw) + [outcome, cls])
        if s.lex_errors:
            fail("unparseable-or-non-finite-output", errors=[(p.decode("utf-8", "replace"), e) for p, e in s.lex_errors[:2]])
            return
        if not check_lines(new, start_pos, start_rel):
            return
        col.key(prop, cls, name, outcome if exc is None else type(exc).__name__)
        if cls in ("min", "max"):
            col.count("boundary_value_calls")
        # (b) predictor -----------------------------------------------------
        if hooked["fired"]:
            expect_inside = None    # the hook changed the request: only the wire monitor judges this call
        if expect_inside is True and isinstance(exc, ValueError):
            fail("in-bounds-call-rejected", call=_jc(name, args, kw), value_class=cls, error=repr(exc),
                 position=start_pos, relative=start_rel, mech=f"c03:{prop}:{cls}:rejected")
            return
        if expect_inside is False:
            if outcome == "ok":
                fail("out-of-bounds-call-accepted", call=_jc(name, args, kw), value_class=cls,
                     position=start_pos, relative=start_rel, emitted=[ln.raw for ln in new],
                     mech=f"c03:{prop}:{cls}:accepted")
                return
            col.count("rejected_out_of_bounds")
    if case % 199 == 0:
        col.sample({"case": case, "dp": dp, "bounds": _jb(bounds), "history": log[:12]})


MODAL = {"set_feed_mode": ["units/min", "units/rev", "1/time"],
         "set_extrusion_mode": ["absolute", "relative"],
         "set_plane": ["xy", "zx", "yz"],
         "set_time_units": ["s", "ms"],
         "set_temperature_units": ["celsius", "kelvin"],
         "set_length_units": ["mm", "in"]}


def modal_switches(rng, g, col, n):
    for _ in range(n):
        which = rng.choice(sorted(MODAL))
        value = rng.choice(MODAL[which])
        getattr(g, which)(value)
        col.count("modal_switches")
        col.count(f"modal:{which}={value}")


def draw_call(rng, g, bounds, pos, rel):
    """Returns (name, args, kwargs, property, value class, expect_inside, is_motion).
    expect_inside: True  -> every bounded quantity is inside and the call is otherwise valid
                   False -> some bounded quantity is outside (or NaN): must raise
                   None  -> no prediction"""
    kinds = ["feed", "power", "toolnum", "temp", "move", "move", "bypass", "probe", "shape"]
    kind = rng.choice(kinds)
    # keep interlocks out of the way: they are C02's business
    if kind in ("power", "toolnum", "temp"):
        if g.state.is_tool_active:
            g.tool_off()
        if g.state.is_coolant_active:
            g.coolant_off()

    def here_ok():
        """move/rapid/probe without axis words still 'target' the current
        position (unknown axes = 0), which must be inside the box."""
        if "axes" not in bounds:
            return True
        blo, bhi = bounds["axes"]
        return all(l <= (0.0 if v is None else v) <= h for v, l, h in zip(pos, blo, bhi))

    def scalar(prop, default):
        lo, hi = bounds.get(prop, default)
        v, cls = value_class(rng, lo, hi)
        inside = (prop not in bounds or lo <= v <= hi) and math.isfinite(v)
        if prop not in bounds:
            cls = "unbounded:" + cls
        return v, cls, inside

    if kind == "feed":
        v, cls, inside = scalar("feed-rate", (0, 6000))
        ok = inside and v >= 0
        how = rng.choice(["set_feed_rate", "move", "rapid", "probe"])
        if how == "set_feed_rate":
            return how, (v,), {}, "feed-rate", cls, ok, False
        if how == "probe":
            return "probe", ("towards",), {"F": v}, "feed-rate", cls, ok and here_ok(), True
        return how, (), {rng.choice(["F", "F", "f"]): v}, "feed-rate", cls, ok and here_ok(), True
    if kind == "power":
        v, cls, inside = scalar("tool-power", (0, 24000))
        ok = inside and v >= 0
        how = rng.choice(["set_tool_power", "tool_on", "power_on", "move", "probe"])
        if how == "set_tool_power":
            return how, (v,), {}, "tool-power", cls, ok, False
        if how == "tool_on":
            return how, (rng.choice(["cw", "ccw"]), v), {}, "tool-power", cls, ok, False
        if how == "power_on":
            return how, (rng.choice(["constant", "dynamic"]), v), {}, "tool-power", cls, ok, False
        if how == "probe":
            return "probe", ("away",), {"S": v}, "tool-power", cls, ok and here_ok(), True
        return "move", (), {rng.choice(["S", "S", "s"]): v}, "tool-power", cls, ok and here_ok(), True
    if kind == "toolnum":
        lo, hi = bounds.get("tool-number", (1, 99))
        v, cls = value_class(rng, lo, hi, integer=True)
        inside = ("tool-number" not in bounds or lo <= v <= hi)
        if "tool-number" not in bounds:
            cls = "unbounded:" + cls
        return "tool_change", (rng.choice(["manual", "automatic"]), v), {}, "tool-number", cls, inside and v >= 1, False
    if kind == "temp":
        prop = rng.choice(list(TEMP))
        v, cls, inside = scalar(prop, (0, 300))
        setter, wait = TEMP[prop][:2]
        if rng.random() < 0.5:
            return setter, (v,), {}, prop, cls, inside, False
        return "halt", (wait,), {rng.choice(["S", "R", "s", "r"]): v}, prop, cls, inside, False

    # motion ------------------------------------------------------------
    raw = pos
    pos = tuple(0.0 if v is None else v for v in raw)
    lo, hi = bounds.get("axes", ((-100.0,) * 3, (100.0,) * 3))
    if kind == "shape":
        # a shape that may bulge out of the box: every emitted G1 is checked
        scale = max(min(h - l for l, h in zip(lo, hi)), 1e-3) * rng.choice([0.2, 0.6, 1.5])
        g.set_resolution(scale / rng.choice([6, 20]))
        name, args, kw, meta = gen.shape_request(rng, pos, rel, scale=scale,
                                                 kinds=["arc", "circle", "spline", "polyline", "helix", "arc_radius"])
        return name, args, kw, "axes", "shape:" + meta["kind"], None, True
    name = {"move": rng.choice(["move", "rapid"]), "bypass": rng.choice(["move_absolute", "rapid_absolute"]),
            "probe": "probe"}[kind]
    args = (rng.choice(["towards", "away"]),) if kind == "probe" else ()
    absolute_coords = (kind == "bypass") or not rel
    kw, classes = {}, []
    inside_all = True
    # move/rapid/probe resolve unknown axes to 0; the absolute-bypass moves keep them unknown
    tgt = list(raw) if kind == "bypass" else list(pos)
    for i, a in enumerate("xyz"):
        if rng.random() < 0.55:
            v, cls = value_class(rng, lo[i], hi[i])
            if cls in ("nan", "inf"):
                if rng.random() < 0.7:
                    v, cls = lo[i] + (hi[i] - lo[i]) * 0.5, "inside"
            if absolute_coords:
                kw[a] = v
                tgt[i] = v
            else:
                off = v - pos[i]
                kw[a] = off
                tgt[i] = pos[i] + off     # exactly the expression the builder evaluates
            classes.append(cls)
    for i in range(3):
        t = tgt[i]
        if t is None:
            continue
        if not math.isfinite(t):
            inside_all = False
        elif "axes" in bounds and not (lo[i] <= t <= hi[i]):
            inside_all = False
    cls = "+".join(sorted(set(classes))) or "none"
    if "axes" not in bounds:
        cls = "unbounded:" + cls
    return name, args, kw, "axes", cls, inside_all, True


def _jb(bounds):
    return {k: [list(v[0]) if isinstance(v[0], tuple) else v[0],
                list(v[1]) if isinstance(v[1], tuple) else v[1]] for k, v in bounds.items()}


def _jc(name, args, kw):
    def r(v):
        if isinstance(v, float) and not math.isfinite(v):
            return repr(v)
        if isinstance(v, (list, tuple)):
            return [r(x) for x in v]
        if callable(v):
            return "<fn>"
        return v
    return [name, [r(a) for a in args], {k: r(v) for k, v in kw.items()}]


def run_shard(ctx, col):
    for case in ctx.cases():
        run_case(ctx, col, case)
        col.evaluations += 1
