"""C05 A rejected command has no effect.

Monitors
  (a) emission: bytes reaching any writer during a call that raises;
  (b) bit-exact snapshot of all observable state before/after the call;
  (c) differential replay: the history with its rejected calls vs. the same
      history with those calls deleted must give the same output bytes and
      the same final snapshot ("as if the call had never been made").
"""

from __future__ import annotations

import math

from gscrib.excepts import CoolantStateError, ToolStateError

from harness import snapshot, stateops
from harness.session import Session
from harness.wire import RecordingWriter

PROP = "C05"
LEVEL = "exploration"
TECHNIQUE = 'bit-exact before/after snapshot of observable state + emission monitor + differential replay of the history without its rejected calls'
LEVEL_TEXT = 'Held on every entry point failing at first/middle/last validation step from random reachable states, apart from the two listed known findings.'
RULE = ("from states reached by random valid prefixes (tool/coolant on or off, random user bounds, "
        "relative or absolute mode, partially unknown axes) every single-command entry point is "
        "called with arguments failing at its first, middle or last validation step (bounds on each "
        "bounded quantity, negative, NaN/+-inf in each numeric position, bad enum strings, OFF modes, "
        "interlocks); distinct = (operation, failing step, state class) rejections observed")
ASSUMPTIONS = [
    "observable state = harness.snapshot.take(): positions, modes, every public GState property, "
    "get_parameter A-Z (builder and state), get_bounds, transform image of 3 points, writer byte counts",
    "tracer operations are excluded (not single commands)",
    "a call that does not raise is not judged here",
]
TIERS = {
    "quick": {"shards": 16, "cases": 1600, "probes": 12, "timeout": 300},
    "thorough": {"shards": 16, "cases": 200000, "probes": 16, "timeout": 3000},
}
FLOORS = {
    "quick": {"counts": {"rejections_checked": 9000, "replay_comparisons": 1000}, "keys": 250},
    "thorough": {"counts": {"rejections_checked": 400000}, "keys": 350},
}
NAN, INF = float("nan"), float("inf")


def setup_bounds(rng, g):
    b = {}
    if rng.random() < 0.6:
        b["axes"] = ((-50.0, -50.0, -20.0), (50.0, 50.0, 20.0))
    if rng.random() < 0.5:
        b["feed-rate"] = (10, 3000)
    if rng.random() < 0.5:
        b["tool-power"] = (0, 1000)
    if rng.random() < 0.5:
        b["tool-number"] = (1, 20)
    for name in ("bed-temperature", "hotend-temperature", "chamber-temperature"):
        if rng.random() < 0.4:
            b[name] = (0, 120)
    for name, (lo, hi) in b.items():
        g.set_bounds(name, lo, hi)
    return b


def failing_call(rng, g, bounds, model):
    """Return (name, args, kwargs, opclass, step) expected to be rejected."""
    rel = g.distance_mode.is_relative
    pos = g.position.resolve()
    ops = ["move", "bypass", "probe", "set_axis", "set_feed_rate", "set_tool_power", "tool_on",
           "power_on", "coolant_on", "tool_change", "halt", "pausestop", "temperature", "enum",
           "misc", "set_bounds", "transform"]
    op = rng.choice(ops)

    def out_of_axes():
        ax = rng.choice("xyz")
        lim = {"x": 50.0, "y": 50.0, "z": 20.0}[ax]
        cur = {"x": pos.x, "y": pos.y, "z": pos.z}[ax]
        tgt = rng.choice([lim + 1, -lim - 1, lim * 10, math.nextafter(lim, INF)])
        kw = {ax: tgt - cur if rel else tgt}
        return kw

    def good_words():
        kw = {}
        if rng.random() < 0.6:
            kw["F"] = rng.choice([100, 500, 1200.5])
        if rng.random() < 0.5:
            kw["S"] = rng.choice([10, 250, 999])
        if rng.random() < 0.3:
            kw["E"] = rng.choice([0.5, 12.25])
        return kw

    def some_axes():
        kw = {}
        for a in "xyz":
            if rng.random() < 0.5:
                kw[a] = rng.uniform(-1, 1) if rel else rng.uniform(-19, 19)
        return kw

    if op in ("move", "bypass", "probe"):
        if op == "move":
            name = rng.choice(["move", "rapid"])
            args = ()
        elif op == "bypass":
            name = rng.choice(["move_absolute", "rapid_absolute"])
            args = ()
        else:
            name = "probe"
            args = (rng.choice(["towards", "away", "towards-no-error", "away-no-error"]),)
        steps = ["F-negative", "F-nan", "F-inf", "S-negative", "S-nan", "valid-F-then-S-negative",
                 "coord-nan", "coord-inf", "param-nan"]
        if "axes" in bounds:
            steps += ["axes-bounds", "axes-bounds", "axes-bounds+words"]
        if "feed-rate" in bounds:
            steps += ["F-bounds"]
        if "tool-power" in bounds:
            steps += ["S-bounds", "valid-F-then-S-bounds"]
        if op == "probe":
            steps += ["bad-mode"]
        step = rng.choice(steps)
        kw = some_axes()
        if step == "axes-bounds":
            if op == "bypass":
                ax = rng.choice("xyz")
                kw = {ax: rng.choice([51.0, -51.0, 500.0]) if ax != "z" else rng.choice([21.0, -21.0])}
            else:
                kw = out_of_axes()
        elif step == "axes-bounds+words":
            if op == "bypass":
                ax = rng.choice("xy")
                kw = {ax: rng.choice([51.0, -51.0, 500.0])}
            else:
                kw = out_of_axes()
            kw.update(good_words() or {"F": 200})
        elif step == "F-negative":
            kw["F"] = rng.choice([-1, -0.001, -5000])
        elif step == "F-nan":
            kw["F"] = NAN
        elif step == "F-inf":
            kw["F"] = rng.choice([INF, -INF])
        elif step == "S-negative":
            kw["S"] = -1
        elif step == "S-nan":
            kw["S"] = rng.choice([NAN, INF])
        elif step == "valid-F-then-S-negative":
            kw["F"], kw["S"] = rng.choice([100, 777]), -3
        elif step == "valid-F-then-S-bounds":
            kw["F"], kw["S"] = rng.choice([100, 777]), 5000
        elif step == "coord-nan":
            kw[rng.choice("xyz")] = NAN
            kw.update(good_words())
        elif step == "coord-inf":
            kw[rng.choice("xyz")] = rng.choice([INF, -INF])
            kw.update(good_words())
        elif step == "param-nan":
            kw[rng.choice(["E", "A", "P"])] = rng.choice([NAN, INF])
            kw.update(good_words())
        elif step == "F-bounds":
            kw["F"] = rng.choice([5, 3001, 1e9])
        elif step == "S-bounds":
            kw["S"] = rng.choice([1001, 1e6])
        elif step == "bad-mode":
            args = ("sideways",)
        return name, args, kw, op, step

    if op == "set_axis":
        step = rng.choice(["coord-nan", "coord-inf"] + (["axes-bounds"] * 2 if "axes" in bounds else []))
        kw = some_axes()
        if step == "axes-bounds":
            kw[rng.choice("xy")] = rng.choice([60.0, -75.5])
        else:
            kw[rng.choice("xyz")] = NAN if step == "coord-nan" else INF
        return "set_axis", (), kw, op, step
    if op in ("set_feed_rate", "set_tool_power"):
        key = "feed-rate" if op == "set_feed_rate" else "tool-power"
        steps = ["negative", "nan", "inf"] + (["bounds"] if key in bounds else [])
        step = rng.choice(steps)
        v = {"negative": -2.5, "nan": NAN, "inf": rng.choice([INF, -INF]),
             "bounds": 1e7 if key == "feed-rate" else 1e6}[step]
        return op, (v,), {}, op, step
    if op in ("tool_on", "power_on"):
        good = "cw" if op == "tool_on" else "constant"
        steps = ["bad-mode", "off-mode", "negative", "nan", "inf"]
        if "tool-power" in bounds:
            steps.append("bounds")
        if model.tool:
            steps += ["interlock"] * 3
        step = rng.choice(steps)
        mode, v = good, rng.choice([100, 250, 999])
        if step == "bad-mode":
            mode = "bogus"
        elif step == "off-mode":
            mode = "off"
        elif step == "negative":
            v = -1
        elif step == "nan":
            v = NAN
        elif step == "inf":
            v = INF
        elif step == "bounds":
            v = 5000
        return op, (mode, v), {}, op, step
    if op == "coolant_on":
        steps = ["bad-mode", "off-mode"] + (["interlock"] * 3 if model.coolant else [])
        step = rng.choice(steps)
        mode = {"bad-mode": "air", "off-mode": "off", "interlock": rng.choice(["mist", "flood"])}[step]
        return op, (mode,), {}, op, step
    if op == "tool_change":
        steps = ["bad-mode", "off-mode", "zero", "negative"]
        if "tool-number" in bounds:
            steps.append("bounds")
        if model.tool:
            steps += ["interlock-tool"] * 2
        if model.coolant:
            steps += ["interlock-coolant"] * 2
        step = rng.choice(steps)
        mode, n = rng.choice(["manual", "automatic"]), rng.randint(1, 15)
        if step == "bad-mode":
            mode = "magic"
        elif step == "off-mode":
            mode = "off"
        elif step == "zero":
            n = 0
        elif step == "negative":
            n = -3
        elif step == "bounds":
            n = 99
        return op, (mode, n), {}, op, step
    if op == "halt":
        steps = ["bad-mode", "off-mode", "temp-nan", "param-nan"]
        tb = [n for n in ("bed", "hotend", "chamber") if n + "-temperature" in bounds]
        if tb:
            steps += ["temp-bounds"] * 3
        if model.tool or model.coolant:
            steps += ["interlock"] * 3
        step = rng.choice(steps)
        mode = rng.choice(stateops.HALT_MODES)
        kw = {}
        if step == "bad-mode":
            mode = "forever"
        elif step == "off-mode":
            mode = "off"
        elif step == "temp-nan":
            mode = rng.choice(["wait-for-bed", "wait-for-hotend", "wait-for-chamber"])
            kw[rng.choice("SR")] = rng.choice([NAN, INF])
        elif step == "param-nan":
            kw["P"] = NAN
        elif step == "temp-bounds":
            mode = "wait-for-" + rng.choice(tb)
            kw[rng.choice(["S", "R", "s"])] = rng.choice([500, -10])
        elif step == "interlock" and rng.random() < 0.6:
            # rejected by the interlock although every argument (incl. the temperature) is valid
            mode = rng.choice(["wait-for-bed", "wait-for-hotend", "wait-for-chamber"])
            kw[rng.choice(["S", "R"])] = rng.choice([35, 60, 115])
            step = "interlock+temperature"
        return op, (mode,), kw, op, step
    if op == "pausestop":
        name = rng.choice(["pause", "stop", "wait"])
        args = () if name == "wait" else (rng.random() < 0.5,)
        return name, args, {}, op, "interlock"
    if op == "temperature":
        which = rng.choice(["bed", "hotend", "chamber"])
        name = f"set_{which}_temperature"
        steps = ["nan", "inf"] + (["bounds"] * 2 if which + "-temperature" in bounds else [])
        step = rng.choice(steps)
        v = {"nan": NAN, "inf": INF, "bounds": rng.choice([121, 1000, -1])}[step]
        return name, (v,), {}, op, step
    if op == "enum":
        name = rng.choice(["set_distance_mode", "set_extrusion_mode", "set_feed_mode", "set_length_units",
                           "set_plane", "set_temperature_units", "set_time_units", "set_direction", "query"])
        return name, ("bogus",), {}, op, name
    if op == "misc":
        which = rng.choice(["set_fan_speed", "sleep", "set_resolution", "annotate"])
        if which == "set_fan_speed":
            step, v = rng.choice([("range", 256), ("negative", -1), ("nan", NAN)])
            return which, (v,), {}, op, which + ":" + step
        if which == "sleep":
            step, v = rng.choice([("negative", -1), ("nan", NAN), ("inf", INF)])
            return which, (v,), {}, op, which + ":" + step
        if which == "set_resolution":
            return which, (float(rng.choice([0, -1])),), {}, op, which + ":nonpositive"
        return "annotate", ("not valid!", "v"), {}, op, "annotate:bad-key"
    if op == "transform":
        # validation failures of the coordinate transformer reached through the builder
        which = rng.choice([("transform.scale", (0.0,), "scale-zero"), ("transform.scale", (2.0, 0.0, 1.0), "scale-zero-y"),
                            ("transform.scale", (1.0, 2.0, 3.0, 4.0), "scale-4-args"), ("transform.scale", (), "scale-no-args"),
                            ("transform.rotate", (30.0, "w"), "rotate-bad-axis"),
                            ("transform.reflect", ([0.0, 0.0, 0.0],), "reflect-zero-normal"),
                            ("transform.mirror", ("ab",), "mirror-bad-plane")])
        return which[0], which[1], {}, op, which[2]
    # set_bounds
    step = rng.choice(["unknown-name", "min>=max", "axes-min>=max"])
    if step == "unknown-name":
        return "set_bounds", ("speed", 0, 1), {}, op, step
    if step == "min>=max":
        return "set_bounds", (rng.choice(["feed-rate", "tool-power"]), 10, 10), {}, op, step
    return "set_bounds", ("axes", (5, 5, 5), (1, 1, 1)), {}, op, step


def classify(opclass, step, relative, d, emitted_codes):
    """Known-finding classifier: a predicate over the witness, by mechanism."""
    atoms = []
    leaked = set(d)
    if emitted_codes:
        if opclass == "bypass" and relative and emitted_codes == ["G90", "G91"]:
            atoms.append("c05:bypass-in-relative-mode:emits-G90-G91")
            leaked -= {"writer0.payloads", "writer0.bytes", "writer1.payloads", "writer1.bytes"}
        else:
            return None
    for field in sorted(leaked):
        atoms.append(f"c05:{opclass}:{step}:leaks:{field}")
    return " & ".join(atoms) if atoms else None


def run_case(ctx, col, case):
    rng = ctx.rng(case)
    s = Session(dp=rng.choice([3, 5]))
    twin = Session(dp=s.dp)           # replay without the rejected calls
    extra = RecordingWriter()
    s.g.add_writer(extra)
    twin.g.add_writer(RecordingWriter())
    g = s.g
    model = stateops.Model()
    bounds = setup_bounds(rng, g)
    for name, (lo, hi) in bounds.items():
        twin.g.set_bounds(name, lo, hi)
    log = []

    def valid_step():
        for _ in range(20):
            op = stateops.draw(rng)
            if not op.valid or (op.needs_tool_off and model.tool) or (op.needs_coolant_off and model.coolant):
                continue
            if op.name == "set_length_units":
                continue
            # keep coordinates and words inside the configured bounds
            kw = dict(op.kwargs)
            if op.tag in ("move", "probe"):
                rel = g.distance_mode.is_relative
                for a in "xyz":
                    if a in kw:
                        kw[a] = rng.uniform(-1, 1) if (rel and op.name not in ("move_absolute", "rapid_absolute")) else rng.uniform(-19, 19)
                if "F" in kw:
                    kw["F"] = rng.choice([100, 500, 1200.5])
                if "S" in kw:
                    kw["S"] = rng.choice([10, 250, 999])
            args = op.args
            if op.name in ("tool_on", "power_on"):
                args = (args[0], rng.choice([10, 250, 999]))
            elif op.name == "set_feed_rate":
                args = (rng.choice([100, 500, 1200.5]),)
            elif op.name == "set_tool_power":
                args = (rng.choice([10, 250, 999]),)
            elif op.name == "tool_change":
                args = (args[0], rng.randint(1, 20))
            elif op.name.endswith("_temperature"):
                args = (rng.choice([20, 60, 110]),)
            elif op.name == "halt":
                kw = {k: rng.choice([20, 60, 110]) for k in kw}
            o1 = s.call(op.name, *args, **kw)
            o2 = twin.call(op.name, *args, **kw)
            log.append([op.name, list(args), stateops.Op(op.name, args, kw).render()[2], o1[0]])
            if o1[0] == "ok":
                op.apply(model)
            if o1[0] != o2[0]:
                col.violation("replay-diverges:accepted-call-outcome", ctx.case_ref(case),
                              {"call": log[-1], "with_rejections": o1[0], "without": o2[0],
                               "error": repr(o1[1] or o2[1]), "history_tail": log[-8:]},
                              mechanism=None)
                return False
            return True
        return True

    for _ in range(rng.randint(2, 10)):
        if not valid_step():
            return
    if rng.random() < 0.3:
        kw = {"x": 0} if rng.random() < 0.5 else {}
        s.call("auto_home", **kw)
        twin.call("auto_home", **kw)
        log.append(["auto_home", [], kw, "ok"])
    n_rej = 0
    for _ in range(ctx.params["probes"]):
        name, args, kw, opclass, step = failing_call(rng, g, bounds, model)
        relative = g.distance_mode.is_relative
        before = snapshot.take(g, (s.rec, extra))
        nlines = len(s.lines)
        outcome, exc, new, npayloads = s.call(name, *args, **kw)
        rendered = stateops.Op(name, args, kw).render()
        log.append(rendered + [outcome])
        if outcome == "ok":
            # accepted: mirror on the twin so both histories stay comparable
            twin.call(name, *args, **kw)
            col.count("expected_rejection_but_accepted")
            if name in ("tool_on", "power_on"):
                model.tool = True
            elif name == "coolant_on":
                model.coolant = True
            continue
        n_rej += 1
        col.count("rejections_checked")
        after = snapshot.take(g, (s.rec, extra))
        d = snapshot.diff(before, after)
        emitted = [ln.raw for ln in s.lines[nlines:]]
        codes = [ln.code() for ln in s.lines[nlines:] if ln.words]
        state_class = f"t{int(model.tool)}c{int(model.coolant)}{'r' if relative else 'a'}"
        col.key(name, step, state_class, type(exc).__name__)
        if isinstance(exc, (ToolStateError, CoolantStateError)):
            col.count("interlock_rejections")
        if d or npayloads:
            kind = "rejected-call-emitted-output" if npayloads else "rejected-call-changed-state"
            col.violation(kind, ctx.case_ref(case),
                          {"call": rendered, "error": repr(exc), "failing_step": step,
                           "relative_mode": relative, "bounds": bounds, "emitted": emitted,
                           "changed": d, "history_tail": log[-6:]},
                          mechanism=classify(opclass, step, relative, d, codes))
            return
        if rng.random() < 0.4:
            if not valid_step():
                return
    # (c) differential replay ----------------------------------------------
    for _ in range(3):
        if not valid_step():
            return
    col.count("replay_comparisons")
    a, b = snapshot.take(g, ()), snapshot.take(twin.g, ())
    d = snapshot.diff(a, b)
    if d or s.rec.payloads != twin.rec.payloads:
        col.violation("replay-diverges:history-without-rejected-calls-differs", ctx.case_ref(case),
                      {"changed": d, "n_rejected": n_rej, "history_tail": log[-10:],
                       "payloads_with": len(s.rec.payloads), "payloads_without": len(twin.rec.payloads)})
        return
    if case % 397 == 0:
        col.sample({"case": case, "bounds": bounds, "history": log[:14], "rejections": n_rej})


def run_shard(ctx, col):
    for case in ctx.cases():
        run_case(ctx, col, case)
        col.evaluations += 1
