"""C11 A toolpath is the same in relative and absolute distance mode.

Monitor: differential execution.  Builder A stays in absolute mode, builder
B in relative mode; both receive the same logical toolpath (B gets offsets).
The emitted programs are executed by the independent interpreter and the
machine positions after every G0/G1 are compared vertex by vertex.
"""

from __future__ import annotations

import math

from harness import gen, shapes
from harness.common import CaseTimeout
from harness.session import Session

PROP = "C11"
LEVEL = "exploration"
TECHNIQUE = 'differential execution: absolute-mode builder vs relative-mode builder, vertex-by-vertex comparison of interpreted machine positions'
LEVEL_TEXT = 'Held on random toolpaths on a dyadic grid incl. every tracer shape and mode contexts.'
RULE = ("toolpaths of 3-8 steps on a dyadic grid (k/64) from a random start: partial-axis moves and "
        "rapids, absolute-bypass moves, absolute_mode()/relative_mode() blocks and every tracer "
        "shape; executed on an absolute-mode and a relative-mode builder; non-trivial = contains a "
        "tracer shape or a mode context; distinct = (step kind, start class, direction, shape)")
ASSUMPTIONS = [
    "machine positions come from harness.interp on the recorded output of each builder (dp=9)",
    "tolerance = both builders' accumulated rounding budgets + 1e-9*scale",
    "a vertex-count difference is only tolerated (as inconclusive) when 10*L/resolution is within 1e-9 of an integer",
]
TIERS = {
    "quick": {"shards": 16, "cases": 960, "timeout": 300},
    "thorough": {"shards": 16, "cases": 40000, "timeout": 3000},
}
FLOORS = {
    "quick": {"counts": {"vertex_pairs_compared": 30000, "steps": 3000, "parametric_not_starting_at_the_tool": 60, "shape_steps": 600}, "keys": 60},
    "thorough": {"counts": {"vertex_pairs_compared": 700000, "shape_steps": 15000}, "keys": 75},
}


def q(v):
    return round(v * 64) / 64


def run_case(ctx, col, case):
    rng = ctx.rng(case)
    scale = rng.choice([4.0, 16.0, 64.0])
    start_class = rng.choice(["origin", "near", "far"])
    if start_class == "origin":
        o = (0.0, 0.0, 0.0)
    elif start_class == "near":
        o = (q(rng.uniform(-50, 50)), q(rng.uniform(-50, 50)), q(rng.uniform(-20, 20)))
    else:
        o = (q(rng.uniform(-4000, 4000)), q(rng.uniform(-4000, 4000)), q(rng.uniform(-100, 100)))
    sign = rng.choice([-1, 1])
    A, B = Session(dp=9), Session(dp=9)
    for s in (A, B):
        s.g.set_axis(x=o[0], y=o[1], z=o[2])
        s.g.set_direction("cw" if sign < 0 else "ccw")
        s.g.set_resolution(scale / rng.choice([8, 20]) if s is A else s.g.state.resolution)
    B.g.set_resolution(A.g.state.resolution)
    B.g.set_distance_mode("relative")
    A.drain(); B.drain()
    cur = list(o)
    steps = []
    keys = set()
    nontrivial = False
    nsteps = rng.randint(3, 8)

    def both(kind, a_call, b_call):
        """Run one logical step on both builders; return False on a verdict."""
        ra = _call(A, *a_call)
        rb = _call(B, *b_call)
        steps.append([kind, _render(a_call), _render(b_call), ra[0], rb[0]])
        col.count("steps")
        if ra[0] != rb[0]:
            col.violation("accepted-in-one-mode-only", ctx.case_ref(case),
                          {"steps": steps[-4:], "absolute": ra[0], "relative": rb[0],
                           "errors": [repr(ra[1]), repr(rb[1])], "start": o},
                          mechanism=f"c11:{kind}:one-mode-only")
            return None
        return ra[0]

    def do_steps(n, in_abs_block=False, in_rel_block=False, depth=0):
        nonlocal nontrivial
        for _ in range(n):
            r = rng.random()
            a_rel = in_rel_block           # how builder A currently interprets coordinates
            b_rel = not in_abs_block       # how builder B currently interprets coordinates
            if r < 0.35:
                op = rng.choice(["move", "rapid"])
                tgt = {}
                for i, a in enumerate("xyz"):
                    if rng.random() < 0.6:
                        tgt[a] = q(cur[i] + rng.uniform(-1, 1) * scale)
                ka = {a: (v - cur["xyz".index(a)] if a_rel else v) for a, v in tgt.items()}
                kb = {a: (v - cur["xyz".index(a)] if b_rel else v) for a, v in tgt.items()}
                keys.add((op, start_class, sign, "-"))
                res = both(op, (op, (), ka), (op, (), kb))
                if res is None:
                    return False
                for a, v in (tgt.items() if res == "ok" else ()):
                    cur["xyz".index(a)] = v
            elif r < 0.47:
                op = rng.choice(["move_absolute", "rapid_absolute"])
                tgt = {a: q(cur[i] + rng.uniform(-1, 1) * scale) for i, a in enumerate("xyz")
                       if rng.random() < 0.6}
                keys.add((op, start_class, sign, "-"))
                res = both(op, (op, (), dict(tgt)), (op, (), dict(tgt)))
                if res is None:
                    return False
                for a, v in (tgt.items() if res == "ok" else ()):
                    cur["xyz".index(a)] = v
            elif r < 0.62 and depth < 2:
                nontrivial = True
                cm = rng.choice(["absolute_mode", "relative_mode"])
                keys.add((cm, start_class, sign, "-"))
                ok = True
                with getattr(A.g, cm)(), getattr(B.g, cm)():
                    A.drain(); B.drain()
                    ok = do_steps(rng.randint(1, 3), cm == "absolute_mode", cm == "relative_mode", depth + 1)
                    if ok is not False and rng.random() < 0.35:
                        # the body switches the mode explicitly (a helper that "leaves things relative"):
                        # the block must still hand back the mode each builder had on entry
                        other = "relative" if cm == "absolute_mode" else "absolute"
                        A.g.set_distance_mode(other); B.g.set_distance_mode(other)
                        A.drain(); B.drain()
                        col.count("explicit_mode_switch_inside_block")
                        ok = do_steps(rng.randint(1, 2), other == "absolute", other == "relative", depth + 1)
                A.drain(); B.drain()
                if ok is False:
                    return False
            else:
                nontrivial = True
                oo = tuple(cur)
                # build the request twice from the same random stream
                state = rng.getstate()
                na, aa, kwa, meta = gen.shape_request(rng, oo, a_rel, scale=scale, grid=64, param_offset=True)
                rng.setstate(state)
                nb, ab, kwb, _ = gen.shape_request(rng, oo, b_rel, scale=scale, grid=64, param_offset=True)
                kind = meta["kind"]
                if kind == "parametric" and meta.get("starts_elsewhere"):
                    # the function is in absolute coordinates in either mode and need not start at the
                    # current position: both builders must visit the same machine positions
                    col.count("parametric_not_starting_at_the_tool")
                keys.add(("shape", start_class, sign, kind))
                col.count("shape_steps")
                col.count("shape:" + kind)
                res = both("trace." + kind, (na, aa, kwa), (nb, ab, kwb))
                if res is None:
                    return False
                if res != "ok":
                    col.count("shape_rejected_in_both")
                    return True   # position after a partially traced path is not defined by the request
                if kind == "circle":
                    pass
                elif kind == "parametric":
                    cur[:] = list(meta["target_abs"])
                elif "points_abs" in meta:
                    cur[:] = list(meta["points_abs"][-1])
                else:
                    t = meta["target_abs"]
                    cur[0], cur[1] = t[0], t[1]
                    if meta.get("with_z"):
                        cur[2] = t[2]
        return True

    try:
        with ctx.watchdog(ctx.params.get("case_timeout", 40)):
            verdict = do_steps(nsteps)
    except CaseTimeout:
        col.inconclusive_case(f"case {case}: watchdog; steps={steps[-2:]}")
        return
    if verdict is False:
        return
    for s, nm in ((A, "absolute"), (B, "relative")):
        if s.lex_errors:
            col.violation("unparseable-output", ctx.case_ref(case), {"builder": nm, "errors": str(s.lex_errors[:2])})
            return
    va, vb = A.m.moves, B.m.moves
    if len(va) != len(vb):
        col.violation("vertex-count-differs", ctx.case_ref(case),
                      {"absolute": len(va), "relative": len(vb), "steps": steps, "start": o},
                      mechanism="c11:vertex-count")
        return
    tolbase = 1e-9 * max(1.0, scale) + 1e-12 * max(abs(c) for c in o)
    for i, (ma, mb) in enumerate(zip(va, vb)):
        col.count("vertex_pairs_compared")
        if ma[0] != mb[0]:
            col.violation("move-code-differs", ctx.case_ref(case), {"index": i, "absolute": ma[0], "relative": mb[0], "steps": steps})
            return
        for ax in "XYZ":
            pa, pb = ma[2][ax], mb[2][ax]
            if pa is None or pb is None:
                col.violation("axis-unknown", ctx.case_ref(case), {"index": i, "axis": ax})
                return
            tol = float(ma[5][ax] + mb[5][ax]) + tolbase
            if abs(float(pa) - float(pb)) > tol:
                col.violation("vertex-differs", ctx.case_ref(case),
                              {"index": i, "axis": ax, "absolute": float(pa), "relative": float(pb),
                               "steps": steps, "start": o, "n_vertices": len(va)},
                              mechanism="c11:vertex-differs")
                return
    if nontrivial:
        for k in keys:
            col.key(*k)
        col.count("nontrivial_toolpaths")
    if case % 131 == 0:
        col.sample({"case": case, "start": o, "steps": steps[:6], "n_vertices": len(va),
                    "last_vertex_abs": {a: float(v) for a, v in va[-1][2].items()} if va else None,
                    "last_vertex_rel": {a: float(v) for a, v in vb[-1][2].items()} if vb else None})


def _call(s, name, args, kw):
    outcome, exc, new, _ = s.call(name, *args, **kw)
    return outcome, exc


def _render(obj):
    if isinstance(obj, dict):
        return {k: _render(x) for k, x in obj.items()}
    if isinstance(obj, (list, tuple)):
        return [_render(x) for x in obj]
    if callable(obj):
        return "<fn>"
    return obj


def run_shard(ctx, col):
    for case in ctx.cases():
        run_case(ctx, col, case)
        col.evaluations += 1
